"""secp256k1 (SEC 2), ECDSA (SEC 1 4.1) and the HMAC-DRBG nonce of RFC 6979 3.2
as the library specialises it (priv || hash fed as raw bytes, first candidate)."""
from __future__ import annotations

from .ec import Curve
from .gf import Fld
from .hkdf import hmac_sha256
from .params import SECP_A, SECP_B, SECP_GX, SECP_GY, SECP_N, SECP_P

P, N = SECP_P, SECP_N
F = Fld(P)
E = Curve(F, SECP_A, SECP_B, "secp256k1")
G = ((SECP_GX,), (SECP_GY,))


def to_pt(t):
    """library 2-tuple (x, y) with (0, 0) as identity -> model point"""
    if t[0] == 0 and t[1] == 0:
        return None
    return ((t[0] % P,), (t[1] % P,))


def from_pt(Pt):
    if Pt is None:
        return (0, 0)
    return (Pt[0][0], Pt[1][0])


def mul_g(k):
    return E.mul(G, k % N)


def nonce(msghash: bytes, priv: bytes) -> int:
    v = b"\x01" * 32
    k = b"\x00" * 32
    k = hmac_sha256(k, v + b"\x00" + priv + msghash)
    v = hmac_sha256(k, v)
    k = hmac_sha256(k, v + b"\x01" + priv + msghash)
    v = hmac_sha256(k, v)
    v = hmac_sha256(k, v)
    return int.from_bytes(v, "big")


def sign(msghash: bytes, priv: bytes):
    z = int.from_bytes(msghash, "big")
    d = int.from_bytes(priv, "big")
    k = nonce(msghash, priv)
    Rp = mul_g(k)
    rx, ry = Rp[0][0], Rp[1][0]
    r = rx
    s = pow(k, -1, N) * (z + r * d) % N
    odd = ry & 1
    flipped = 2 * s >= N
    if flipped:
        s = N - s
        odd ^= 1
    return 27 + odd, r, s, {"flipped": flipped, "ry_odd": ry & 1, "k": k}


def verify(z: int, r: int, s: int, Q) -> bool:
    """Standard ECDSA verification equation (r, s already known to be in range)."""
    if Q is None:
        return False
    if not (1 <= r % N and 1 <= s % N):
        return False
    w = pow(s % N, -1, N)
    X = E.add(mul_g(z * w % N), E.mul(Q, (r * w) % N))
    if X is None:
        return False
    return X[0][0] % N == r % N


def lift(r, odd):
    pts = E.lift_x((r % P,))
    for Pt in pts:
        if (Pt[1][0] & 1) == odd:
            return Pt
    return None


def recover(msghash: bytes, v, r, s):
    """Returns ('refuse', reason) or ('point', Q) with Q the unique solution of
    (r mod N) Q = s R - z G (Q may be None = identity)."""
    if v not in (27, 28):
        return ("refuse", "v")
    if r % N == 0:
        return ("refuse", "r=0 mod N")
    if s % N == 0:
        return ("refuse", "s=0 mod N")
    if not (0 <= r < P):
        return ("out-of-scope", "r>=P")
    Rp = lift(r, 0 if v == 27 else 1)
    if Rp is None:
        return ("refuse", "r not an x-coordinate")
    z = int.from_bytes(msghash, "big")
    T = E.add(E.mul(Rp, s % N), E.neg(mul_g(z % N)))
    Q = E.mul(T, pow(r % N, -1, N))
    return ("point", Q)
