"""Curve parameters, derived from the defining curve parameter where a derivation
exists and literal (from the standards) otherwise.  Nothing is read from py_ecc.
"""
from __future__ import annotations

from .ec import Curve
from .gf import Fld

# ----------------------------------------------------------------------------
# BLS12-381 (parameter x = -0xd201000000010000)
# ----------------------------------------------------------------------------
BLS_X = -0xD201000000010000
BLS_P = ((BLS_X - 1) ** 2 * (BLS_X ** 4 - BLS_X ** 2 + 1)) // 3 + BLS_X
BLS_R = BLS_X ** 4 - BLS_X ** 2 + 1
BLS_H1 = (BLS_X - 1) ** 2 // 3
BLS_H2 = (BLS_X ** 8 - 4 * BLS_X ** 7 + 5 * BLS_X ** 6 - 4 * BLS_X ** 4 + 6 * BLS_X ** 3
          - 4 * BLS_X ** 2 - 4 * BLS_X + 13) // 9
BLS_HEFF1 = 1 - BLS_X                       # RFC 9380 8.8.1
BLS_HEFF2 = BLS_H2 * (3 * BLS_X ** 2 - 3)   # RFC 9380 8.8.2
BLS_ATE = -BLS_X

BLS_FP = Fld(BLS_P)
BLS_FP2 = Fld(BLS_P, (1, 0))                         # i^2 = -1
# tower choice w^6 = 1 + i  =>  (w^6 - 1)^2 = -1  =>  w^12 - 2 w^6 + 2 = 0
BLS_FP12 = Fld(BLS_P, (2, 0, 0, 0, 0, 0, -2, 0, 0, 0, 0, 0))
BLS_E1 = Curve(BLS_FP, 0, 4, "bls12_381.E(Fp)")
BLS_E2 = Curve(BLS_FP2, (0, 0), (4, 4), "bls12_381.E'(Fp2)")   # M-twist: b' = 4(1+i)
BLS_E12 = Curve(BLS_FP12, 0, 4, "bls12_381.E(Fp12)")


def _smaller(F, pts):
    """Lexicographically smaller point by y, highest coordinate first (ZCash order)."""
    return min(pts, key=lambda P: tuple(reversed(P[1])))


def _derive_bls_generators():
    # ZCash: smallest x with a point on the curve, its smaller y, scaled by the cofactor.
    x = 0
    while True:
        pts = BLS_E1.lift_x((x,))
        if pts:
            g = BLS_E1.mul(_smaller(BLS_FP, pts), BLS_H1)
            if g is not None:
                g1 = g
                break
        x += 1
    x = 0
    while True:
        pts = BLS_E2.lift_x((x, 0))
        if pts:
            g = BLS_E2.mul(_smaller(BLS_FP2, pts), BLS_H2)
            if g is not None:
                g2 = g
                break
        x += 1
    return g1, g2


_BLS_GENS = None


def bls_generators():
    global _BLS_GENS
    if _BLS_GENS is None:
        _BLS_GENS = _derive_bls_generators()
    return _BLS_GENS


# factorisations of the cofactors (verified by multiplication in the self-test)
BLS_H1_FACTORS = {3: 1, 11: 2, 10177: 2, 859267: 2, 52437899: 2}
BLS_H2_SMALL_FACTORS = {13: 2, 23: 2, 2713: 1, 11953: 1, 262069: 1}

# ----------------------------------------------------------------------------
# BN254 / alt_bn128 (parameter u = 4965661367192848881)
# ----------------------------------------------------------------------------
BN_U = 4965661367192848881
BN_P = 36 * BN_U ** 4 + 36 * BN_U ** 3 + 24 * BN_U ** 2 + 6 * BN_U + 1
BN_R = 36 * BN_U ** 4 + 36 * BN_U ** 3 + 18 * BN_U ** 2 + 6 * BN_U + 1
BN_ATE = 6 * BN_U + 2
BN_FP = Fld(BN_P)
BN_FP2 = Fld(BN_P, (1, 0))
# tower choice w^6 = 9 + i  =>  (w^6 - 9)^2 = -1  =>  w^12 - 18 w^6 + 82 = 0
BN_FP12 = Fld(BN_P, (82, 0, 0, 0, 0, 0, -18, 0, 0, 0, 0, 0))
BN_B2 = BN_FP2.div((3, 0), (9, 1))                   # D-twist: b' = 3 / (9 + i)
BN_E1 = Curve(BN_FP, 0, 3, "bn128.E(Fp)")
BN_E2 = Curve(BN_FP2, (0, 0), BN_B2, "bn128.E'(Fp2)")
BN_E12 = Curve(BN_FP12, 0, 3, "bn128.E(Fp12)")
BN_G1 = ((1,), (2,))
# EIP-197 generator of G2
BN_G2 = (
    (10857046999023057135944570762232829481370756359578518086990519993285655852781,
     11559732032986387107991004021392285783925812861821192530917403151452391805634),
    (8495653923123431417604973247489272438418190587263600148770280649306958101930,
     4082367875863433681332203403145435568316851327593401208105741076214120093531),
)
BN_TWIST_COFACTOR = 2 * BN_P - BN_R

# ----------------------------------------------------------------------------
# secp256k1 (SEC 2, section 2.4.1)
# ----------------------------------------------------------------------------
SECP_P = 2 ** 256 - 2 ** 32 - 2 ** 9 - 2 ** 8 - 2 ** 7 - 2 ** 6 - 2 ** 4 - 1
SECP_N = 0xFFFFFFFFFFFFFFFFFFFFFFFFFFFFFFFEBAAEDCE6AF48A03BBFD25E8CD0364141
SECP_A = 0
SECP_B = 7
SECP_GX = 0x79BE667EF9DCBBAC55A06295CE870B07029BFCDB2DCE28D959F2815B16F81798
SECP_GY = 0x483ADA7726A3C4655DA4FBFC0E1108A8FD17B448A68554199C47D08FFB10D4B8


class Suite:
    """Bundle describing one pairing curve for generic drivers."""

    def __init__(self, name, p, r, F1, F2, F12, E1, E2, E12, g1, g2, ate, twist_type):
        self.name, self.p, self.r = name, p, r
        self.F1, self.F2, self.F12 = F1, F2, F12
        self.E1, self.E2, self.E12 = E1, E2, E12
        self.g1, self.g2 = g1, g2
        self.ate = ate
        self.twist_type = twist_type   # 'M' (divide by w^2, w^3) or 'D' (multiply)
        # i -> w^6 - shift
        self.shift = 1 if name == "bls12_381" else 9

    def embed_fp2(self, a):
        """Fp2 element a0 + a1 i  ->  Fp12 element (a0 - shift*a1) + a1 w^6."""
        p = self.p
        out = [0] * 12
        out[0] = (a[0] - self.shift * a[1]) % p
        out[6] = a[1] % p
        return tuple(out)

    def embed_fp(self, a):
        return (a[0] % self.p,) + (0,) * 11

    def twist(self, Q):
        """Model embedding E'(Fp2) -> E(Fp12)."""
        if Q is None:
            return None
        F = self.F12
        w = (0, 1) + (0,) * 10
        w2 = F.mul(w, w)
        w3 = F.mul(w2, w)
        x, y = self.embed_fp2(Q[0]), self.embed_fp2(Q[1])
        if self.twist_type == "M":
            return (F.div(x, w2), F.div(y, w3))
        return (F.mul(x, w2), F.mul(y, w3))


_SUITES = {}


def suite(name):
    if name not in _SUITES:
        if name == "bls12_381":
            g1, g2 = bls_generators()
            _SUITES[name] = Suite(name, BLS_P, BLS_R, BLS_FP, BLS_FP2, BLS_FP12, BLS_E1, BLS_E2,
                                  BLS_E12, g1, g2, BLS_ATE, "M")
        elif name == "bn128":
            _SUITES[name] = Suite(name, BN_P, BN_R, BN_FP, BN_FP2, BN_FP12, BN_E1, BN_E2,
                                  BN_E12, BN_G1, BN_G2, BN_ATE, "D")
        else:
            raise KeyError(name)
    return _SUITES[name]
