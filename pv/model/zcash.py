"""ZCash BLS12-381 compressed point format, written from the format note.

384-bit word: bit 383 = compression flag (must be 1), bit 382 = infinity flag,
bit 381 = sign flag (1 iff y is the lexicographically larger of the two roots),
low 381 bits = x-coordinate (< p).  Infinity: flags 110, all other bits zero.
G2: first word carries the flags and the imaginary part x_1 of x, second word
the real part x_0 with no flag bits; "larger y" compares the imaginary part
first and the real part if the imaginary parts are equal (c1 then c0).
"""
from __future__ import annotations

from .params import BLS_E1, BLS_E2, BLS_FP, BLS_FP2, BLS_P

P = BLS_P
HALF = (P - 1) // 2
M381 = (1 << 381) - 1


class DecodeError(ValueError):
    pass


def _y_is_larger_fp(y):
    return y > HALF


def _y_is_larger_fp2(y):
    """Is y lexicographically larger than -y (imaginary part first)?"""
    y0, y1 = y
    if y1 != 0:
        return y1 > HALF
    return y0 > HALF


def enc_g1_word(Pt):
    if Pt is None:
        return (1 << 383) | (1 << 382)
    (x,), (y,) = Pt
    return (1 << 383) | (int(_y_is_larger_fp(y)) << 381) | x


def dec_g1_word(z):
    """Decode a non-negative integer < 2^384; raises DecodeError if invalid."""
    if z < 0 or z >> 384:
        raise DecodeError("word out of range")
    c, b, a = (z >> 383) & 1, (z >> 382) & 1, (z >> 381) & 1
    x = z & M381
    if not c:
        raise DecodeError("compression flag not set")
    if b:
        if a or x:
            raise DecodeError("non-canonical infinity")
        return None
    if x >= P:
        raise DecodeError("x >= p")
    pts = BLS_E1.lift_x((x,))
    if not pts:
        raise DecodeError("x not on curve")
    for Pt in pts:
        if int(_y_is_larger_fp(Pt[1][0])) == a:
            return Pt
    # y == 0 cannot happen on this curve (no 2-torsion over Fp): -4 is not a cube? be safe
    raise DecodeError("sign flag unsatisfiable")


def enc_g2_words(Pt):
    if Pt is None:
        return ((1 << 383) | (1 << 382), 0)
    (x0, x1), y = Pt
    return ((1 << 383) | (int(_y_is_larger_fp2(y)) << 381) | x1, x0)


def dec_g2_words(z1, z2):
    if z1 < 0 or z1 >> 384 or z2 < 0 or z2 >> 384:
        raise DecodeError("word out of range")
    c, b, a = (z1 >> 383) & 1, (z1 >> 382) & 1, (z1 >> 381) & 1
    x1 = z1 & M381
    if not c:
        raise DecodeError("compression flag not set")
    if z2 >> 381:
        raise DecodeError("flag bits in second word")
    if b:
        if a or x1 or z2:
            raise DecodeError("non-canonical infinity")
        return None
    if x1 >= P or z2 >= P:
        raise DecodeError("coordinate >= p")
    pts = BLS_E2.lift_x((z2, x1))
    if not pts:
        raise DecodeError("x not on curve")
    for Pt in pts:
        if int(_y_is_larger_fp2(Pt[1])) == a:
            return Pt
    raise DecodeError("sign flag unsatisfiable")


def enc_g1(Pt):
    return enc_g1_word(Pt).to_bytes(48, "big")


def dec_g1(bs):
    if len(bs) != 48:
        raise DecodeError("length")
    return dec_g1_word(int.from_bytes(bs, "big"))


def enc_g2(Pt):
    z1, z2 = enc_g2_words(Pt)
    return z1.to_bytes(48, "big") + z2.to_bytes(48, "big")


def dec_g2(bs):
    if len(bs) != 96:
        raise DecodeError("length")
    return dec_g2_words(int.from_bytes(bs[:48], "big"), int.from_bytes(bs[48:], "big"))
