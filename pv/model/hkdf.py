"""HMAC (RFC 2104) and HKDF (RFC 5869) over SHA-256, built on hashlib.sha256 only."""
from __future__ import annotations

import hashlib

_B = 64  # SHA-256 block size


def hmac_sha256(key: bytes, msg: bytes) -> bytes:
    key = bytes(key)
    if len(key) > _B:
        key = hashlib.sha256(key).digest()
    key = key + bytes(_B - len(key))
    ipad = bytes(k ^ 0x36 for k in key)
    opad = bytes(k ^ 0x5C for k in key)
    inner = hashlib.sha256(ipad + bytes(msg)).digest()
    return hashlib.sha256(opad + inner).digest()


def hkdf_extract(salt: bytes, ikm: bytes) -> bytes:
    # RFC 5869 2.2: PRK = HMAC-Hash(salt, IKM); an empty salt equals HashLen zeros
    # (HMAC zero-pads the key, so no special case is needed).
    return hmac_sha256(salt, ikm)


def hkdf_expand(prk: bytes, info: bytes, length: int) -> bytes:
    if length > 255 * 32:
        raise ValueError("length too large")
    t, okm, i = b"", b"", 0
    while len(okm) < length:
        i += 1
        t = hmac_sha256(prk, t + bytes(info) + bytes([i]))
        okm += t
    return okm[:length]
