"""RFC 9380 hash-to-curve for BLS12-381 G1 and G2, written from the RFC.

expand_message_xmd (5.3.1), hash_to_field (5.2), simplified SWU in its
straight-line affine form (6.6.2), isogeny evaluation as an affine rational map
(appendix E), cofactor clearing by multiplication with h_eff (8.8).
"""
from __future__ import annotations

import json
import os

from .ec import Curve
from .params import BLS_E1, BLS_E2, BLS_FP, BLS_FP2, BLS_HEFF1, BLS_HEFF2, BLS_P

_HERE = os.path.dirname(os.path.abspath(__file__))
_VEC = os.path.normpath(os.path.join(_HERE, "..", "..", "vectors"))
_ISO = json.load(open(os.path.join(_VEC, "iso_tables.json")))

P = BLS_P
L = 64  # ceil((ceil(log2(p)) + k) / 8) with k = 128


# ---------------------------------------------------------------- 5.3.1
def expand_message_xmd(msg: bytes, dst: bytes, len_in_bytes: int, H) -> bytes:
    b_in_bytes = H().digest_size
    s_in_bytes = H().block_size
    ell = (len_in_bytes + b_in_bytes - 1) // b_in_bytes
    if ell > 255 or len_in_bytes > 65535 or len(dst) > 255:
        raise ValueError("expand_message_xmd: parameters out of range")
    dst_prime = dst + bytes([len(dst)])
    z_pad = bytes(s_in_bytes)
    l_i_b_str = len_in_bytes.to_bytes(2, "big")
    msg_prime = z_pad + msg + l_i_b_str + b"\x00" + dst_prime
    b_0 = H(msg_prime).digest()
    b_i = H(b_0 + b"\x01" + dst_prime).digest()
    uniform = bytearray(b_i)
    b0_int = int.from_bytes(b_0, "big")
    for i in range(2, ell + 1):
        x = (b0_int ^ int.from_bytes(b_i, "big")).to_bytes(b_in_bytes, "big")
        b_i = H(x + bytes([i]) + dst_prime).digest()
        uniform += b_i
    return bytes(uniform[:len_in_bytes])


# ---------------------------------------------------------------- 5.2
def hash_to_field(msg, count, dst, H, m):
    uniform = expand_message_xmd(msg, dst, count * m * L, H)
    out = []
    for i in range(count):
        e = []
        for j in range(m):
            off = L * (j + i * m)
            e.append(int.from_bytes(uniform[off:off + L], "big") % P)
        out.append(tuple(e))
    return out


# ---------------------------------------------------------------- 6.6.2
class SSWU:
    def __init__(self, F, A, B, Z):
        self.F = F
        self.A, self.B, self.Z = F.el(A), F.el(B), F.el(Z)
        self.E = Curve(F, self.A, self.B, "iso")

    def map(self, u):
        """Straight-line simplified SWU, affine output on E'. Also returns a
        trace dict (which branch was taken) for the coverage counters."""
        F, A, B, Z = self.F, self.A, self.B, self.Z
        u = tuple(u)
        zu2 = F.mul(Z, F.mul(u, u))
        tv1 = F.inv(F.add(F.mul(zu2, zu2), zu2))          # inv0
        x1 = F.mul(F.mul(F.neg(B), F.inv(A)), F.add(F.one, tv1))
        exceptional = F.is_zero(tv1)
        if exceptional:
            x1 = F.mul(B, F.inv(F.mul(Z, A)))
        gx1 = self.E.rhs(x1)
        x2 = F.mul(zu2, x1)
        gx2 = self.E.rhs(x2)
        if F.is_square(gx1):
            x, y, first = x1, F.sqrt(gx1), True
        else:
            x, y, first = x2, F.sqrt(gx2), False
        assert y is not None
        if F.sgn0(u) != F.sgn0(y):
            y = F.neg(y)
        return (x, y), {"exceptional": exceptional, "gx1_square": first}


G1_SSWU = SSWU(BLS_FP, (_ISO["iso11_A"],), (_ISO["iso11_B"],), (11,))
G2_SSWU = SSWU(BLS_FP2, (0, 240), (1012, 1012), ((-2) % P, (-1) % P))


def exceptional_inputs_g1():
    """u with Z^2 u^4 + Z u^2 == 0: u = 0 and u^2 = -1/Z."""
    F = BLS_FP
    out = [(0,)]
    r = F.sqrt(F.neg(F.inv((11,))))
    if r is not None:
        out += [r, F.neg(r)]
    return out


def exceptional_inputs_g2():
    F = BLS_FP2
    out = [(0, 0)]
    r = F.sqrt(F.neg(F.inv(G2_SSWU.Z)))
    if r is not None:
        out += [r, F.neg(r)]
    return out


# ---------------------------------------------------------------- appendix E
def _horner(F, coeffs, x):
    acc = F.zero
    for c in reversed(coeffs):
        acc = F.add(F.mul(acc, x), c)
    return acc


class Isogeny:
    def __init__(self, F, table, src: Curve, dst: Curve):
        self.F = F
        self.xn, self.xd, self.yn, self.yd = [[F.el(c) if not isinstance(c, int) else F.const(c) for c in row]
                                              for row in table]
        self.src, self.dst = src, dst

    def map(self, Pt):
        if Pt is None:
            return None
        F = self.F
        x, y = Pt
        xd = _horner(F, self.xd, x)
        yd = _horner(F, self.yd, x)
        if F.is_zero(xd) or F.is_zero(yd):
            return None            # kernel point -> identity
        X = F.mul(_horner(F, self.xn, x), F.inv(xd))
        Y = F.mul(y, F.mul(_horner(F, self.yn, x), F.inv(yd)))
        return (X, Y)


ISO11 = Isogeny(BLS_FP, _ISO["iso11"], G1_SSWU.E, BLS_E1)
ISO3 = Isogeny(BLS_FP2, _ISO["iso3"], G2_SSWU.E, BLS_E2)


def map_to_curve_g1(u):
    Q, tr = G1_SSWU.map(u)
    return ISO11.map(Q), Q, tr


def map_to_curve_g2(u):
    Q, tr = G2_SSWU.map(u)
    return ISO3.map(Q), Q, tr


def clear_cofactor_g1(Pt):
    return BLS_E1.mul(Pt, BLS_HEFF1)


def clear_cofactor_g2(Pt):
    return BLS_E2.mul(Pt, BLS_HEFF2)


def hash_to_g1(msg, dst, H):
    u0, u1 = hash_to_field(msg, 2, dst, H, 1)
    q0 = map_to_curve_g1(u0)[0]
    q1 = map_to_curve_g1(u1)[0]
    return clear_cofactor_g1(BLS_E1.add(q0, q1))


def hash_to_g2(msg, dst, H):
    u0, u1 = hash_to_field(msg, 2, dst, H, 2)
    q0 = map_to_curve_g2(u0)[0]
    q1 = map_to_curve_g2(u1)[0]
    return clear_cofactor_g2(BLS_E2.add(q0, q1))
