"""Independent finite-field arithmetic on plain ints and tuples.

GF(p^k) = GF(p)[x] / (x^k + mc[k-1] x^(k-1) + ... + mc[0]).  Elements are
k-tuples of ints in [0, p), lowest degree first (k == 1: the prime field, a
1-tuple).  Nothing here imports or calls py_ecc: this is the oracles' trusted
base.  It is written from the textbook definitions, in a style unlike the
library's (iterative loops, ``pow(x, -1, p)``, standard polynomial Euclid).
"""
from __future__ import annotations

import random


def _trim(a):
    a = list(a)
    while a and a[-1] == 0:
        a.pop()
    return a


def poly_divmod(a, b, p):
    """Quotient and remainder of a / b in GF(p)[x]; lists, low degree first."""
    a = _trim(x % p for x in a)
    b = _trim(x % p for x in b)
    if not b:
        raise ZeroDivisionError("polynomial division by zero")
    q = [0] * max(len(a) - len(b) + 1, 1)
    lead_inv = pow(b[-1], -1, p)
    while len(a) >= len(b):
        shift = len(a) - len(b)
        c = a[-1] * lead_inv % p
        q[shift] = c
        for i, bc in enumerate(b):
            a[shift + i] = (a[shift + i] - c * bc) % p
        a = _trim(a)
    return _trim(q), a


def poly_mul(a, b, p):
    if not a or not b:
        return []
    out = [0] * (len(a) + len(b) - 1)
    for i, ai in enumerate(a):
        if ai:
            for j, bj in enumerate(b):
                out[i + j] += ai * bj
    return _trim(x % p for x in out)


def poly_sub(a, b, p):
    n = max(len(a), len(b))
    a = list(a) + [0] * (n - len(a))
    b = list(b) + [0] * (n - len(b))
    return _trim((x - y) % p for x, y in zip(a, b))


def poly_gcd(a, b, p):
    a, b = _trim(x % p for x in a), _trim(x % p for x in b)
    while b:
        a, b = b, poly_divmod(a, b, p)[1]
    if a:
        li = pow(a[-1], -1, p)
        a = [x * li % p for x in a]
    return a


def poly_powmod(base, e, mod, p):
    result = [1]
    base = poly_divmod(base, mod, p)[1]
    while e:
        if e & 1:
            result = poly_divmod(poly_mul(result, base, p), mod, p)[1]
        base = poly_divmod(poly_mul(base, base, p), mod, p)[1]
        e >>= 1
    return result


def poly_roots_fp(coeffs, p, rng=None):
    """All roots in GF(p) of the polynomial with the given coefficients (low degree first); Cantor-Zassenhaus
    on gcd(x^p - x, f)."""
    rng = rng or random.Random(0xC0FFEE)
    f = _trim([c % p for c in coeffs])
    if len(f) <= 1:
        return []
    # make monic
    inv = pow(f[-1], -1, p)
    f = [c * inv % p for c in f]
    xp = poly_powmod([0, 1], p, f, p)
    g = poly_gcd(poly_sub(xp, [0, 1], p), f, p)
    roots = []

    def split(h):
        h = _trim(h)
        d = len(h) - 1
        if d <= 0:
            return
        if d == 1:
            roots.append((-h[0] * pow(h[1], -1, p)) % p)
            return
        while True:
            a = rng.randrange(p)
            t = poly_powmod([a, 1], (p - 1) // 2, h, p)
            t = poly_sub(t, [1], p)
            w = poly_gcd(t, h, p)
            dw = len(_trim(w)) - 1
            if 0 < dw < d:
                split(w)
                q, r = poly_divmod(h, w, p)
                split(q)
                return
    if len(_trim(g)) - 1 >= 1:
        split(g)
    return sorted(set(roots))


def _prime_factors(n):
    out, d = [], 2
    while d * d <= n:
        if n % d == 0:
            out.append(d)
            while n % d == 0:
                n //= d
        d += 1
    if n > 1:
        out.append(n)
    return out


def is_irreducible(mc, p):
    """Rabin's test for the monic polynomial x^k + sum mc[i] x^i over GF(p)."""
    k = len(mc)
    f = [c % p for c in mc] + [1]
    if k == 1:
        return True
    x = [0, 1]
    # x^(p^k) == x (mod f)
    t = x
    for _ in range(k):
        t = poly_powmod(t, p, f, p)
    if poly_sub(t, x, p):
        return False
    for q in _prime_factors(k):
        t = x
        for _ in range(k // q):
            t = poly_powmod(t, p, f, p)
        g = poly_gcd(poly_sub(t, x, p), f, p)
        if g != [1]:
            return False
    return True


def is_prime(n):
    if n < 2:
        return False
    small = (2, 3, 5, 7, 11, 13, 17, 19, 23, 29, 31, 37)
    for q in small:
        if n % q == 0:
            return n == q
    d, s = n - 1, 0
    while d % 2 == 0:
        d //= 2
        s += 1
    for a in small:
        x = pow(a, d, n)
        if x in (1, n - 1):
            continue
        for _ in range(s - 1):
            x = x * x % n
            if x == n - 1:
                break
        else:
            return False
    return True


class Fld:
    """Descriptor of GF(p^k); all operations are on tuples of ints."""

    def __init__(self, p, mc=None):
        self.p = p
        if mc is None:
            self.k = 1
            self.mc = ()
        else:
            self.mc = tuple(int(c) % p for c in mc)
            self.k = len(self.mc)
        self.nz = tuple((j, c) for j, c in enumerate(self.mc) if c)
        self.q = p ** self.k
        self.zero = (0,) * self.k
        self.one = (1,) + (0,) * (self.k - 1)
        self._complex = self.k == 2 and self.mc == (1, 0)

    def __repr__(self):
        return "Fld(p=%d bits, k=%d, mc=%r)" % (self.p.bit_length(), self.k, self.mc if self.k < 13 else "...")

    # construction -----------------------------------------------------
    def el(self, seq):
        if isinstance(seq, int):
            return (seq % self.p,) + (0,) * (self.k - 1)
        t = tuple(int(c) % self.p for c in seq)
        assert len(t) == self.k, (len(t), self.k)
        return t

    def const(self, n):
        return (n % self.p,) + (0,) * (self.k - 1)

    def rand(self, rng: random.Random):
        return tuple(rng.randrange(self.p) for _ in range(self.k))

    def all_elements(self):
        import itertools
        return itertools.product(range(self.p), repeat=self.k)

    # arithmetic -------------------------------------------------------
    def add(self, a, b):
        p = self.p
        return tuple((x + y) % p for x, y in zip(a, b))

    def sub(self, a, b):
        p = self.p
        return tuple((x - y) % p for x, y in zip(a, b))

    def neg(self, a):
        p = self.p
        return tuple((-x) % p for x in a)

    def smul(self, a, n):
        p = self.p
        return tuple(x * n % p for x in a)

    def mul(self, a, b):
        p = self.p
        k = self.k
        if k == 1:
            return (a[0] * b[0] % p,)
        if self._complex:
            return ((a[0] * b[0] - a[1] * b[1]) % p, (a[0] * b[1] + a[1] * b[0]) % p)
        t = [0] * (2 * k - 1)
        for i, ai in enumerate(a):
            if ai:
                for j, bj in enumerate(b):
                    t[i + j] += ai * bj
        nz = self.nz
        for i in range(2 * k - 2, k - 1, -1):
            top = t[i] % p
            if top:
                base = i - k
                for j, c in nz:
                    t[base + j] -= top * c
        return tuple(x % p for x in t[:k])

    def sqr(self, a):
        return self.mul(a, a)

    def is_zero(self, a):
        return not any(a)

    def inv(self, a):
        """Multiplicative inverse with inv0(0) = 0."""
        p = self.p
        if not any(a):
            return self.zero
        if self.k == 1:
            return (pow(a[0], -1, p),)
        if self._complex:
            n = pow((a[0] * a[0] + a[1] * a[1]) % p, -1, p)
            return (a[0] * n % p, (-a[1]) * n % p)
        # extended Euclid in GF(p)[x]: find t with t*a == gcd (mod m)
        m = list(self.mc) + [1]
        r0, r1 = m, _trim(a)
        t0, t1 = [], [1]
        while r1:
            q, r = poly_divmod(r0, r1, p)
            r0, r1 = r1, r
            t0, t1 = t1, poly_sub(t0, poly_mul(q, t1, p), p)
        assert len(r0) == 1, "modulus not irreducible or element not a unit"
        c = pow(r0[0], -1, p)
        t0 = poly_divmod(t0, m, p)[1]
        out = [x * c % p for x in t0]
        return tuple(out + [0] * (self.k - len(out)))

    def div(self, a, b):
        return self.mul(a, self.inv(b))

    def pow(self, a, e):
        assert e >= 0
        if self.k == 1:
            return (pow(a[0], e, self.p),)
        out = self.one
        for bit in bin(e)[2:]:
            out = self.mul(out, out)
            if bit == "1":
                out = self.mul(out, a)
        return out

    def frob_pow_naive(self, a, n):
        """a ** n by repeated multiplication (tiny n only; used in self-tests)."""
        out = self.one
        for _ in range(n):
            out = self.mul(out, a)
        return out

    # predicates -------------------------------------------------------
    def sgn0(self, a):
        """RFC 9380 section 4.1: parity of the first non-zero coordinate."""
        for c in a:
            if c:
                return c & 1
        return 0

    def sgn0_rfc(self, a):
        """RFC 9380 section 4.1, transcribed literally (for cross-checking)."""
        sign, zero = 0, 1
        for x_i in a:
            sign_i = x_i % 2
            zero_i = 1 if x_i == 0 else 0
            sign = sign | (zero & sign_i)
            zero = zero & zero_i
        return sign

    def is_square(self, a):
        if not any(a):
            return True
        if self.p == 2:
            return True
        return self.pow(a, (self.q - 1) // 2) == self.one

    def sqrt(self, a):
        """Some square root of a, or None."""
        p = self.p
        if not any(a):
            return self.zero
        if self.k == 1:
            r = _sqrt_fp(a[0], p)
            return None if r is None else (r,)
        if self._complex and p % 4 == 3:
            a0, a1 = a
            if a1 == 0:
                r = _sqrt_fp(a0, p)
                if r is not None:
                    return (r, 0)
                r = _sqrt_fp((-a0) % p, p)
                return (0, r)
            n = _sqrt_fp((a0 * a0 + a1 * a1) % p, p)
            if n is None:
                return None
            half = pow(2, -1, p)
            for s in (n, (-n) % p):
                x0 = _sqrt_fp((a0 + s) * half % p, p)
                if x0 is not None and x0 != 0:
                    x1 = a1 * pow(2 * x0, -1, p) % p
                    cand = (x0, x1)
                    if self.mul(cand, cand) == tuple(a):
                        return cand
            return None
        if self.q <= 1 << 16:
            for c in self.all_elements():
                if self.mul(c, c) == tuple(a):
                    return tuple(c)
            return None
        return self._tonelli(a)

    def _tonelli(self, a):
        q = self.q
        if not self.is_square(a):
            return None
        s, t = 0, q - 1
        while t % 2 == 0:
            t //= 2
            s += 1
        rng = random.Random(0xC0FFEE)
        while True:
            z = self.rand(rng)
            if any(z) and not self.is_square(z):
                break
        c = self.pow(z, t)
        x = self.pow(a, (t + 1) // 2)
        b = self.pow(a, t)
        m = s
        while b != self.one:
            i, bb = 0, b
            while bb != self.one:
                bb = self.mul(bb, bb)
                i += 1
            e = c
            for _ in range(m - i - 1):
                e = self.mul(e, e)
            x = self.mul(x, e)
            c = self.mul(e, e)
            b = self.mul(b, c)
            m = i
        return x

    def cbrt(self, a, rng=None):
        """Some cube root of a, or None (generic cyclic-group algorithm)."""
        if not any(a):
            return self.zero
        order = self.q - 1
        if order % 3:
            return self.pow(a, pow(3, -1, order))
        s, t = 0, order
        while t % 3 == 0:
            t //= 3
            s += 1
        if self.pow(a, order // 3) != self.one:
            return None
        rng = rng or random.Random(0xBEEF)
        while True:
            g = self.rand(rng)
            if any(g) and self.pow(g, order // 3) != self.one:
                break
        e = pow(3, -1, t)
        c = self.pow(a, e)
        k = (3 * e - 1) // t
        err = self.pow(a, k * t)          # c^3 = a * err, err in the 3-Sylow subgroup's cubes
        h = self.pow(g, t)                # generator of the 3-Sylow subgroup (order 3^s)
        h3 = self.pow(h, 3)
        n = 3 ** (s - 1)
        j = 0
        base = self.pow(h3, 3 ** (s - 2)) if s >= 2 else self.one
        for i in range(s - 1):
            lhs = self.pow(self.mul(err, self.pow(self.pow(h3, j), n - 1)), 3 ** (s - 2 - i))
            d, cur = 0, self.one
            while cur != lhs:
                cur = self.mul(cur, base)
                d += 1
                if d > 3:
                    return None
            j += d * 3 ** i
        dinv = self.pow(self.pow(h, j), 3 ** s - 1)
        r = self.mul(c, dinv)
        return r if self.mul(self.mul(r, r), r) == tuple(a) else None


def _sqrt_fp(a, p):
    a %= p
    if a == 0:
        return 0
    if p == 2:
        return a
    if pow(a, (p - 1) // 2, p) != 1:
        return None
    if p % 4 == 3:
        return pow(a, (p + 1) // 4, p)
    # Tonelli-Shanks
    s, t = 0, p - 1
    while t % 2 == 0:
        t //= 2
        s += 1
    z = 2
    while pow(z, (p - 1) // 2, p) != p - 1:
        z += 1
    c, x, b, m = pow(z, t, p), pow(a, (t + 1) // 2, p), pow(a, t, p), s
    while b != 1:
        i, bb = 0, b
        while bb != 1:
            bb = bb * bb % p
            i += 1
        e = pow(c, 1 << (m - i - 1), p)
        x, c = x * e % p, e * e % p
        b, m = b * c % p, i
    return x


def find_irreducible(p, k, rng, sparse=False):
    """A random monic irreducible modulus of degree k over GF(p) (as mc tuple)."""
    while True:
        if sparse:
            mc = [0] * k
            mc[0] = rng.randrange(1, p) if p > 2 else 1
            mc[rng.randrange(1, k)] = rng.randrange(1, p) if p > 2 else 1
        else:
            mc = [rng.randrange(p) for _ in range(k)]
        if mc[0] % p == 0:
            continue
        if is_irreducible(mc, p):
            return tuple(mc)
