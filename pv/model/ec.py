"""Affine short-Weierstrass group law y^2 = x^3 + a x + b over a model field.

Points are (x, y) pairs of field-element tuples; ``None`` is the point at
infinity.  Textbook chord-and-tangent, iterative left-to-right double-and-add.
"""
from __future__ import annotations

from .gf import Fld


class Curve:
    def __init__(self, F: Fld, a, b, name=""):
        self.F = F
        self.a = F.el(a) if not isinstance(a, int) else F.const(a)
        self.b = F.el(b) if not isinstance(b, int) else F.const(b)
        self.name = name
        self._a_zero = F.is_zero(self.a)

    def rhs(self, x):
        F = self.F
        t = F.mul(F.mul(x, x), x)
        if not self._a_zero:
            t = F.add(t, F.mul(self.a, x))
        return F.add(t, self.b)

    def on_curve(self, P):
        if P is None:
            return True
        x, y = P
        return self.F.mul(y, y) == self.rhs(x)

    def neg(self, P):
        if P is None:
            return None
        return (P[0], self.F.neg(P[1]))

    def add(self, P, Q):
        F = self.F
        if P is None:
            return Q
        if Q is None:
            return P
        x1, y1 = P
        x2, y2 = Q
        if x1 == x2:
            if F.is_zero(F.add(y1, y2)):
                return None
            # P == Q, tangent
            num = F.smul(F.mul(x1, x1), 3)
            if not self._a_zero:
                num = F.add(num, self.a)
            lam = F.mul(num, F.inv(F.smul(y1, 2)))
        else:
            lam = F.mul(F.sub(y2, y1), F.inv(F.sub(x2, x1)))
        x3 = F.sub(F.sub(F.mul(lam, lam), x1), x2)
        y3 = F.sub(F.mul(lam, F.sub(x1, x3)), y1)
        return (x3, y3)

    def dbl(self, P):
        return self.add(P, P)

    def mul_affine(self, P, n):
        """Reference scalar multiplication: left-to-right double-and-add on the affine law."""
        if n < 0:
            return self.mul_affine(self.neg(P), -n)
        R = None
        for bit in bin(n)[2:]:
            R = self.add(R, R)
            if bit == "1":
                R = self.add(R, P)
        return R

    def mul(self, P, n):
        """Scalar multiplication.  Same left-to-right ladder, carried out in Jacobian
        coordinates (EFD dbl-2007-bl / madd-2007-bl) with one inversion at the end; the
        self-test cross-checks it against ``mul_affine`` exhaustively on small curves and
        on random inputs of the real curves at every start-up."""
        if P is None or n == 0:
            return None
        if n < 0:
            return self.mul(self.neg(P), -n)
        if self.F.k == 1:
            return self._mul_fp(P, n)
        F = self.F
        mul, sqr, add, sub, smul = F.mul, F.sqr, F.add, F.sub, F.smul
        x2, y2 = P
        a = self.a
        a_zero = self._a_zero
        X = Y = Z = None            # None = infinity
        for bit in bin(n)[2:]:
            if X is not None:
                if F.is_zero(Y):
                    X = None
                else:
                    XX, YY, ZZ = sqr(X), sqr(Y), sqr(Z)
                    YYYY = sqr(YY)
                    S = smul(sub(sub(sqr(add(X, YY)), XX), YYYY), 2)
                    M = smul(XX, 3)
                    if not a_zero:
                        M = add(M, mul(a, sqr(ZZ)))
                    T = sub(sqr(M), smul(S, 2))
                    Z = sub(sub(sqr(add(Y, Z)), YY), ZZ)
                    Y = sub(mul(M, sub(S, T)), smul(YYYY, 8))
                    X = T
            if bit == "1":
                if X is None:
                    X, Y, Z = x2, y2, F.one
                else:
                    Z1Z1 = sqr(Z)
                    U2 = mul(x2, Z1Z1)
                    S2 = mul(mul(y2, Z), Z1Z1)
                    if U2 == X:
                        if S2 == Y:
                            # doubling of the accumulated point
                            R = self.add(self._jac_to_aff(X, Y, Z), P)
                            if R is None:
                                X = None
                            else:
                                X, Y, Z = R[0], R[1], F.one
                        else:
                            X = None
                    else:
                        H = sub(U2, X)
                        HH = sqr(H)
                        I = smul(HH, 4)
                        J = mul(H, I)
                        r = smul(sub(S2, Y), 2)
                        V = mul(X, I)
                        X3 = sub(sub(sqr(r), J), smul(V, 2))
                        Y3 = sub(mul(r, sub(V, X3)), smul(mul(Y, J), 2))
                        Z = sub(sub(sqr(add(Z, H)), Z1Z1), HH)
                        X, Y = X3, Y3
        if X is None:
            return None
        return self._jac_to_aff(X, Y, Z)

    def _jac_to_aff(self, X, Y, Z):
        F = self.F
        if F.is_zero(Z):
            return None
        zi = F.inv(Z)
        zi2 = F.sqr(zi)
        return (F.mul(X, zi2), F.mul(Y, F.mul(zi2, zi)))

    def _mul_fp(self, P, n):
        p = self.F.p
        a = self.a[0]
        x2, y2 = P[0][0], P[1][0]
        inf = True
        X = Y = Z = 0
        for bit in bin(n)[2:]:
            if not inf:
                if Y == 0:
                    inf = True
                else:
                    XX, YY, ZZ = X * X % p, Y * Y % p, Z * Z % p
                    YYYY = YY * YY % p
                    S = 2 * ((X + YY) ** 2 - XX - YYYY) % p
                    M = (3 * XX + a * ZZ * ZZ) % p
                    T = (M * M - 2 * S) % p
                    Z = ((Y + Z) ** 2 - YY - ZZ) % p
                    Y = (M * (S - T) - 8 * YYYY) % p
                    X = T
            if bit == "1":
                if inf:
                    X, Y, Z, inf = x2, y2, 1, False
                else:
                    Z1Z1 = Z * Z % p
                    U2 = x2 * Z1Z1 % p
                    S2 = y2 * Z * Z1Z1 % p
                    if U2 == X:
                        if S2 == Y:
                            zi = pow(Z, -1, p)
                            R = self.add(((X * zi * zi % p,), (Y * zi * zi * zi % p,)), P)
                            if R is None:
                                inf = True
                            else:
                                X, Y, Z = R[0][0], R[1][0], 1
                        else:
                            inf = True
                    else:
                        H = (U2 - X) % p
                        HH = H * H % p
                        I = 4 * HH % p
                        J = H * I % p
                        r = 2 * (S2 - Y) % p
                        V = X * I % p
                        X3 = (r * r - J - 2 * V) % p
                        Y3 = (r * (V - X3) - 2 * Y * J) % p
                        Z = ((Z + H) ** 2 - Z1Z1 - HH) % p
                        X, Y = X3, Y3
        if inf or Z == 0:
            return None
        zi = pow(Z, -1, p)
        zi2 = zi * zi % p
        return ((X * zi2 % p,), (Y * zi2 * zi % p,))

    def lift_x(self, x):
        """All points with this x-coordinate (0, 1 or 2 of them)."""
        F = self.F
        y = F.sqrt(self.rhs(x))
        if y is None:
            return []
        ny = F.neg(y)
        return [(tuple(x), y)] if y == ny else [(tuple(x), y), (tuple(x), ny)]

    def rand_point(self, rng):
        F = self.F
        while True:
            x = F.rand(rng)
            pts = self.lift_x(x)
            if pts:
                return pts[rng.randrange(len(pts))]

    def point_with_y(self, y, rng=None):
        """A point with the given y (a = 0 curves only): x = cbrt(y^2 - b)."""
        assert self._a_zero
        F = self.F
        x = F.cbrt(F.sub(F.mul(y, y), self.b), rng)
        if x is None:
            return None
        return (x, tuple(y))

    def all_points(self):
        """Every affine point plus None (small fields only)."""
        F = self.F
        pts = [None]
        sq = {}
        for y in F.all_elements():
            sq.setdefault(F.mul(y, y), []).append(tuple(y))
        for x in F.all_elements():
            for y in sq.get(self.rhs(x), ()):
                pts.append((tuple(x), y))
        return pts

    def order_of(self, P, bound):
        R, n = P, 1
        while R is not None:
            R = self.add(R, P)
            n += 1
            if n > bound:
                return None
        return n


def line_affine(C: Curve, P1, P2, T):
    """Affine line function through P1, P2 (finite) evaluated at T (finite).

    chord: lam (xt - x1) - (yt - y1); tangent likewise with the tangent slope;
    vertical: xt - x1.
    """
    F = C.F
    x1, y1 = P1
    x2, y2 = P2
    xt, yt = T
    if x1 != x2:
        lam = F.mul(F.sub(y2, y1), F.inv(F.sub(x2, x1)))
    elif y1 == y2:
        num = F.smul(F.mul(x1, x1), 3)
        if not C._a_zero:
            num = F.add(num, C.a)
        lam = F.mul(num, F.inv(F.smul(y1, 2)))
    else:
        return F.sub(xt, x1)
    return F.sub(F.mul(lam, F.sub(xt, x1)), F.sub(yt, y1))
