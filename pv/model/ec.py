"""Affine short-Weierstrass group law y^2 = x^3 + a x + b over a model field.

Points are (x, y) pairs of field-element tuples; ``None`` is the point at
infinity.  Textbook chord-and-tangent, iterative left-to-right double-and-add.
"""
from __future__ import annotations

from .gf import Fld


class Curve:
    def __init__(self, F: Fld, a, b, name=""):
        self.F = F
        self.a = F.el(a) if not isinstance(a, int) else F.const(a)
        self.b = F.el(b) if not isinstance(b, int) else F.const(b)
        self.name = name
        self._a_zero = F.is_zero(self.a)

    def rhs(self, x):
        F = self.F
        t = F.mul(F.mul(x, x), x)
        if not self._a_zero:
            t = F.add(t, F.mul(self.a, x))
        return F.add(t, self.b)

    def on_curve(self, P):
        if P is None:
            return True
        x, y = P
        return self.F.mul(y, y) == self.rhs(x)

    def neg(self, P):
        if P is None:
            return None
        return (P[0], self.F.neg(P[1]))

    def add(self, P, Q):
        F = self.F
        if P is None:
            return Q
        if Q is None:
            return P
        x1, y1 = P
        x2, y2 = Q
        if x1 == x2:
            if F.is_zero(F.add(y1, y2)):
                return None
            # P == Q, tangent
            num = F.smul(F.mul(x1, x1), 3)
            if not self._a_zero:
                num = F.add(num, self.a)
            lam = F.mul(num, F.inv(F.smul(y1, 2)))
        else:
            lam = F.mul(F.sub(y2, y1), F.inv(F.sub(x2, x1)))
        x3 = F.sub(F.sub(F.mul(lam, lam), x1), x2)
        y3 = F.sub(F.mul(lam, F.sub(x1, x3)), y1)
        return (x3, y3)

    def dbl(self, P):
        return self.add(P, P)

    def mul(self, P, n):
        if n < 0:
            return self.mul(self.neg(P), -n)
        R = None
        for bit in bin(n)[2:]:
            R = self.add(R, R)
            if bit == "1":
                R = self.add(R, P)
        return R

    def lift_x(self, x):
        """All points with this x-coordinate (0, 1 or 2 of them)."""
        F = self.F
        y = F.sqrt(self.rhs(x))
        if y is None:
            return []
        ny = F.neg(y)
        return [(tuple(x), y)] if y == ny else [(tuple(x), y), (tuple(x), ny)]

    def rand_point(self, rng):
        F = self.F
        while True:
            x = F.rand(rng)
            pts = self.lift_x(x)
            if pts:
                return pts[rng.randrange(len(pts))]

    def point_with_y(self, y, rng=None):
        """A point with the given y (a = 0 curves only): x = cbrt(y^2 - b)."""
        assert self._a_zero
        F = self.F
        x = F.cbrt(F.sub(F.mul(y, y), self.b), rng)
        if x is None:
            return None
        return (x, tuple(y))

    def all_points(self):
        """Every affine point plus None (small fields only)."""
        F = self.F
        pts = [None]
        sq = {}
        for y in F.all_elements():
            sq.setdefault(F.mul(y, y), []).append(tuple(y))
        for x in F.all_elements():
            for y in sq.get(self.rhs(x), ()):
                pts.append((tuple(x), y))
        return pts

    def order_of(self, P, bound):
        R, n = P, 1
        while R is not None:
            R = self.add(R, P)
            n += 1
            if n > bound:
                return None
        return n


def line_affine(C: Curve, P1, P2, T):
    """Affine line function through P1, P2 (finite) evaluated at T (finite).

    chord: lam (xt - x1) - (yt - y1); tangent likewise with the tangent slope;
    vertical: xt - x1.
    """
    F = C.F
    x1, y1 = P1
    x2, y2 = P2
    xt, yt = T
    if x1 != x2:
        lam = F.mul(F.sub(y2, y1), F.inv(F.sub(x2, x1)))
    elif y1 == y2:
        num = F.smul(F.mul(x1, x1), 3)
        if not C._a_zero:
            num = F.add(num, C.a)
        lam = F.mul(num, F.inv(F.smul(y1, 2)))
    else:
        return F.sub(xt, x1)
    return F.sub(F.mul(lam, F.sub(xt, x1)), F.sub(yt, y1))
