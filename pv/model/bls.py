"""IETF BLS signatures draft v4, minimal-pubkey-size suites over BLS12-381,
written from the draft on top of the model curve, hashing and encoding."""
from __future__ import annotations

import hashlib

from . import h2c, zcash
from .hkdf import hkdf_expand, hkdf_extract
from .params import BLS_E1, BLS_E2, BLS_R, bls_generators

R = BLS_R
DST = {
    "basic": b"BLS_SIG_BLS12381G2_XMD:SHA-256_SSWU_RO_NUL_",
    "aug": b"BLS_SIG_BLS12381G2_XMD:SHA-256_SSWU_RO_AUG_",
    "pop": b"BLS_SIG_BLS12381G2_XMD:SHA-256_SSWU_RO_POP_",
}
POP_TAG = b"BLS_POP_BLS12381G2_XMD:SHA-256_SSWU_RO_POP_"
SUITES = ("basic", "aug", "pop")


def keygen(ikm: bytes, key_info: bytes = b"", forced_zero_rounds: int = 0, H=hashlib.sha256) -> int:
    """Draft v4 KeyGen. ``forced_zero_rounds`` models a run in which the first
    j candidate keys came out as 0 (used with fault injection)."""
    salt = b"BLS-SIG-KEYGEN-SALT-"
    sk = 0
    rounds = 0
    while sk == 0:
        salt = H(salt).digest()
        prk = hkdf_extract(salt, ikm + b"\x00")
        okm = hkdf_expand(prk, key_info + (48).to_bytes(2, "big"), 48)
        sk = int.from_bytes(okm, "big") % R
        if rounds < forced_zero_rounds:
            sk = 0
        rounds += 1
    return sk


def sk_to_point(sk):
    return BLS_E1.mul(bls_generators()[0], sk)


def sk_to_pk(sk: int) -> bytes:
    return zcash.enc_g1(sk_to_point(sk))


def hash_point(msg: bytes, dst: bytes, H=hashlib.sha256):
    return h2c.hash_to_g2(msg, dst, H)


def core_sign_point(sk, msg, dst, H=hashlib.sha256):
    return BLS_E2.mul(hash_point(msg, dst, H), sk)


def core_sign(sk, msg, dst, H=hashlib.sha256) -> bytes:
    return zcash.enc_g2(core_sign_point(sk, msg, dst, H))


# Parameters of a ciphersuite: kind decides the message transformation (aug: pk || msg) and the aggregate rules
# (basic: distinct messages); custom suites (another hash function, other tags) are the same procedures with other constants.
class SuiteParams:
    def __init__(self, kind, H=hashlib.sha256, dst=None, pop_tag=None):
        self.kind, self.H = kind, H
        self.dst = DST[kind] if dst is None else dst
        self.pop_tag = POP_TAG if pop_tag is None else pop_tag


def sign_p(sp: "SuiteParams", sk: int, msg: bytes) -> bytes:
    return core_sign(sk, augmented(sp.kind, sk_to_pk(sk), msg), sp.dst, sp.H)


def sign_point_p(sp, sk, msg):
    return core_sign_point(sk, augmented(sp.kind, sk_to_pk(sk), msg), sp.dst, sp.H)


def pop_prove_p(sp, sk) -> bytes:
    return core_sign(sk, sk_to_pk(sk), sp.pop_tag, sp.H)


def augmented(suite, pk, msg):
    return pk + msg if suite == "aug" else msg


def sign(suite: str, sk: int, msg: bytes) -> bytes:
    return core_sign(sk, augmented(suite, sk_to_pk(sk), msg), DST[suite])


def sign_point(suite, sk, msg):
    return core_sign_point(sk, augmented(suite, sk_to_pk(sk), msg), DST[suite])


def pop_prove(sk: int) -> bytes:
    return core_sign(sk, sk_to_pk(sk), POP_TAG)


def pop_prove_point(sk):
    return core_sign_point(sk, sk_to_pk(sk), POP_TAG)


def in_subgroup_g1(Pt):
    return BLS_E1.mul(Pt, R) is None


def in_subgroup_g2(Pt):
    return BLS_E2.mul(Pt, R) is None


def key_validate(pk: bytes) -> bool:
    """pk is the canonical 48-byte encoding of a non-identity subgroup point."""
    try:
        Pt = zcash.dec_g1(pk)
    except ValueError:
        return False
    return Pt is not None and in_subgroup_g1(Pt)


def sig_decode_valid(sig: bytes):
    """(ok, point): canonical 96-byte encoding of a subgroup point."""
    try:
        Pt = zcash.dec_g2(sig)
    except ValueError:
        return False, None
    if not in_subgroup_g2(Pt):
        return False, Pt
    return True, Pt


def aggregate(sigs) -> bytes:
    acc = None
    for s in sigs:
        acc = BLS_E2.add(acc, zcash.dec_g2(s))
    return zcash.enc_g2(acc)
