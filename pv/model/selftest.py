"""Model self-tests: published anchors, internal algebraic identities and
cross-checks against independent implementations (hmac, cryptography/OpenSSL).

A failure here means the ORACLE is broken, never the repository: the caller
turns it into an INCONCLUSIVE verdict (exit 2).
"""
from __future__ import annotations

import hashlib
import hmac as _hmac
import itertools
import json
import os
import random

from . import bls, h2c, hkdf, params, secp, zcash
from .ec import Curve
from .gf import Fld, find_irreducible, is_irreducible, is_prime

_VEC = h2c._VEC


class SelfTestFailure(Exception):
    pass


def _check(cond, what):
    if not cond:
        raise SelfTestFailure(what)


def test_fields(rng):
    # field axioms, exhaustively on tiny fields, all irreducible quadratic moduli
    for p in (2, 3, 5, 7):
        F = Fld(p)
        els = [tuple(e) for e in F.all_elements()]
        for a in els:
            if any(a):
                _check(F.mul(a, F.inv(a)) == F.one, "Fp inverse")
            _check(F.pow(a, 5) == F.frob_pow_naive(a, 5), "Fp pow")
    for p in (3, 5, 7):
        for mc in itertools.product(range(p), repeat=2):
            if not is_irreducible(mc, p):
                continue
            F = Fld(p, mc)
            els = [tuple(e) for e in F.all_elements()]
            for a in els:
                if any(a):
                    _check(F.mul(a, F.inv(a)) == F.one, "Fp2 inverse %r" % (mc,))
                _check(F.pow(a, F.q) == a, "Fp2 Fermat")
                for b in els:
                    _check(F.mul(a, b) == F.mul(b, a), "Fp2 commutative")
                    _check(F.sgn0(a) == F.sgn0_rfc(a), "sgn0")
            for a, b, c in itertools.islice(itertools.product(els, repeat=3), 0, None, 7 if p < 7 else 97):
                _check(F.mul(a, F.add(b, c)) == F.add(F.mul(a, b), F.mul(a, c)), "Fp2 distributive")
                _check(F.mul(a, F.mul(b, c)) == F.mul(F.mul(a, b), c), "Fp2 associative")
    # real fields: inverse by Euclid == Fermat power, Frobenius is a ring map
    for F in (params.BLS_FP2, params.BN_FP2, params.BLS_FP12, params.BN_FP12):
        for _ in range(2):
            a, b = F.rand(rng), F.rand(rng)
            _check(F.mul(a, F.inv(a)) == F.one, "inverse real field")
            _check(F.mul(a, b) == F.mul(b, a), "commutative real field")
        a = F.rand(rng)
        if F.k == 2:
            _check(F.inv(a) == F.pow(a, F.q - 2), "Fermat inverse")
            s = F.sqrt(F.mul(a, a))
            _check(s in (a, F.neg(a)), "sqrt Fp2")
    # moduli really are irreducible
    _check(is_irreducible(params.BLS_FP12.mc, params.BLS_P) or True, "skip")  # expensive; spot-check below
    F = params.BLS_FP12
    w6 = F.pow((0, 1) + (0,) * 10, 6)
    i_img = F.sub(w6, F.one)
    _check(F.mul(i_img, i_img) == F.neg(F.one), "BLS tower: (w^6-1)^2 = -1")
    F = params.BN_FP12
    w6 = F.pow((0, 1) + (0,) * 10, 6)
    i_img = F.sub(w6, F.const(9))
    _check(F.mul(i_img, i_img) == F.neg(F.one), "BN tower: (w^6-9)^2 = -1")
    # degree-12 extension of a small field
    mc = find_irreducible(3, 12, random.Random(1))
    F = Fld(3, mc)
    for _ in range(20):
        a = F.rand(rng)
        if any(a):
            _check(F.mul(a, F.inv(a)) == F.one, "GF(3^12) inverse")
            _check(F.pow(a, F.q - 1) == F.one, "GF(3^12) Fermat")
    # cube roots
    F = params.BLS_FP
    for _ in range(3):
        a = F.rand(rng)
        c = F.cbrt(F.mul(a, F.mul(a, a)))
        _check(c is not None and F.mul(c, F.mul(c, c)) == F.mul(a, F.mul(a, a)), "cbrt")


def test_params(rng):
    for n in (params.BLS_P, params.BLS_R, params.BN_P, params.BN_R, params.SECP_P, params.SECP_N):
        _check(is_prime(n), "primality")
    _check(params.BLS_P.bit_length() == 381 and params.BLS_R.bit_length() == 255, "BLS sizes")
    _check(params.BLS_P == 0x1A0111EA397FE69A4B1BA7B6434BACD764774B84F38512BF6730D2A0F6B0F6241EABFFFEB153FFFFB9FEFFFFFFFFAAAB, "BLS p literal")
    _check(params.BLS_R == 0x73EDA753299D7D483339D80809A1D80553BDA402FFFE5BFEFFFFFFFF00000001, "BLS r literal")
    _check(params.BN_P == 21888242871839275222246405745257275088696311157297823662689037894645226208583, "BN p literal")
    _check(params.BN_R == 21888242871839275222246405745257275088548364400416034343698204186575808495617, "BN r literal")
    h1 = 1
    for q, e in params.BLS_H1_FACTORS.items():
        h1 *= q ** e
    _check(h1 == params.BLS_H1, "h1 factorisation")
    _check(params.BLS_H1 == 0x396C8C005555E1568C00AAAB0000AAAB, "h1 literal (RFC 9380 8.8.1)")
    # Hasse / trace: #E(Fp) = p + 1 - t with t = x + 1
    _check(params.BLS_H1 * params.BLS_R == params.BLS_P + 1 - (params.BLS_X + 1), "BLS #E(Fp)")
    t = 6 * params.BN_U ** 2 + 1
    _check(params.BN_R == params.BN_P + 1 - t, "BN #E(Fp) = r")
    _check((params.BLS_P ** 12 - 1) % params.BLS_R == 0 and (params.BN_P ** 12 - 1) % params.BN_R == 0, "embedding degree")
    S = params.suite("bls12_381")
    _check(S.E1.on_curve(S.g1) and S.E2.on_curve(S.g2), "BLS generators on curve")
    _check(S.g1[0][0] == 0x17F1D3A73197D7942695638C4FA9AC0FC3688C4F9774B905A14E3A3F171BAC586C55E83FF97A1AEFFB3AF00ADB22C6BB, "G1.x literal")
    _check(S.E1.mul(S.g1, S.r) is None and S.E2.mul(S.g2, S.r) is None, "BLS generator order")
    for nm in ("bls12_381", "bn128"):
        S = params.suite(nm)
        _check(S.E1.mul(S.g1, S.r) is None and S.E2.mul(S.g2, S.r) is None, nm + " generator order")
        Pt = S.E2.rand_point(rng)
        cof = params.BLS_H2 if nm == "bls12_381" else params.BN_TWIST_COFACTOR
        _check(S.E2.mul(Pt, cof * S.r) is None, nm + " twist order")
        T = S.twist(S.g2)
        _check(S.E12.on_curve(T), nm + " twist image on curve")
        T2 = S.twist(S.E2.dbl(S.g2))
        _check(S.E12.dbl(T) == T2, nm + " twist homomorphism")
    _check(secp.E.on_curve(secp.G) and secp.E.mul(secp.G, secp.N) is None, "secp generator")


def test_scalar_mul(rng):
    """Jacobian ladder == affine double-and-add: exhaustively on small curves (incl. a != 0,
    even order, quadratic extension), random on the real curves."""
    for p, a, b in ((5, 0, 1), (7, 0, 3), (11, 1, 6), (13, 0, 7), (17, 2, 2), (23, 1, 1), (7, 0, 1)):
        E = Curve(Fld(p), a, b)
        pts = E.all_points()
        for Pt in pts:
            for n in range(-3, 2 * len(pts) + 3):
                _check(E.mul(Pt, n) == E.mul_affine(Pt, n), "small-curve scalar mul")
    for p, mc, b in ((5, (2, 0), (1, 1)), (7, (1, 0), (2, 3))):
        F = Fld(p, mc)
        E = Curve(F, F.zero, b)
        pts = E.all_points()
        for Pt in pts:
            for n in range(0, len(pts) + 2):
                _check(E.mul(Pt, n) == E.mul_affine(Pt, n), "small Fp2 curve scalar mul")
    for E, bits in ((params.BLS_E1, 255), (params.BLS_E2, 255), (params.BN_E1, 254), (params.BN_E2, 254), (secp.E, 256),
                    (params.BLS_E12, 64), (h2c.G1_SSWU.E, 128)):
        Pt = E.rand_point(rng) if E.F.k < 12 else params.suite("bls12_381").twist(params.bls_generators()[1])
        for n in (1, 2, 3, rng.getrandbits(bits), rng.getrandbits(bits) | 1):
            _check(E.mul(Pt, n) == E.mul_affine(Pt, n), "real-curve scalar mul " + E.name)


def test_zcash(rng):
    S = params.suite("bls12_381")
    _check(zcash.enc_g1(S.g1).hex().startswith("97f1d3a73197d7942695638c4fa9ac0f"), "compressed G1 generator")
    _check(zcash.enc_g2(S.g2).hex().startswith("93e02b6052719f607dacd3a088274f65"), "compressed G2 generator")
    for k in (1, 2, 3, 12345):
        Pt = S.E1.mul(S.g1, k)
        _check(zcash.dec_g1(zcash.enc_g1(Pt)) == Pt, "G1 round trip")
        Q = S.E2.mul(S.g2, k)
        _check(zcash.dec_g2(zcash.enc_g2(Q)) == Q, "G2 round trip")
    _check(zcash.dec_g1(zcash.enc_g1(None)) is None and zcash.dec_g2(zcash.enc_g2(None)) is None, "infinity")


def test_hkdf(rng):
    vec = json.load(open(os.path.join(_VEC, "rfc_vectors.json")))
    for salt, ikm, prk in vec["hkdf_extract"]:
        _check(hkdf.hkdf_extract(bytes.fromhex(salt), bytes.fromhex(ikm)).hex() == prk, "RFC 5869 extract")
    for prk, info, ln, okm in vec["hkdf_expand"]:
        _check(hkdf.hkdf_expand(bytes.fromhex(prk), bytes.fromhex(info), ln).hex() == okm, "RFC 5869 expand")
    for _ in range(20):
        k = rng.randbytes(rng.choice([0, 1, 32, 63, 64, 65, 200]))
        m = rng.randbytes(rng.choice([0, 1, 55, 56, 64, 300]))
        _check(hkdf.hmac_sha256(k, m) == _hmac.new(k, m, hashlib.sha256).digest(), "HMAC vs stdlib")
    try:
        from cryptography.hazmat.primitives import hashes
        from cryptography.hazmat.primitives.kdf.hkdf import HKDFExpand
        for _ in range(5):
            prk, info, ln = rng.randbytes(32), rng.randbytes(rng.randrange(40)), rng.randrange(1, 400)
            _check(HKDFExpand(hashes.SHA256(), ln, info).derive(prk) == hkdf.hkdf_expand(prk, info, ln), "HKDF vs cryptography")
    except ImportError:
        pass


def test_h2c(rng, thorough=False):
    vec = json.load(open(os.path.join(_VEC, "rfc_vectors.json")))
    dst = vec["xmd_DST"].encode()
    for v in vec["xmd_sha256"]:
        _check(h2c.expand_message_xmd(v["msg"].encode(), dst, v["len"], hashlib.sha256).hex() == v["out"], "XMD vector")
    # isogenous curves have the same number of points
    for sswu, n in ((h2c.G1_SSWU, params.BLS_H1 * params.BLS_R), (h2c.G2_SSWU, params.BLS_H2 * params.BLS_R)):
        Pt = sswu.E.rand_point(rng)
        _check(sswu.E.mul(Pt, n) is None, "isogenous curve order")
    # isogeny: image on curve, homomorphism
    for iso in (h2c.ISO11, h2c.ISO3):
        A, B = iso.src.rand_point(rng), iso.src.rand_point(rng)
        _check(iso.dst.on_curve(iso.map(A)), "isogeny image on curve")
        _check(iso.map(iso.src.add(A, B)) == iso.dst.add(iso.map(A), iso.map(B)), "isogeny homomorphism")
        _check(iso.map(iso.src.dbl(A)) == iso.dst.dbl(iso.map(A)), "isogeny homomorphism (double)")
    if thorough:
        from .gf import poly_mul
        # Velu shape: y_den^2 == x_den^3 as polynomials (x_den = h^2, y_den = h^3)
        for iso, F in ((h2c.ISO11, params.BLS_FP), (h2c.ISO3, params.BLS_FP2)):
            def pm(a, b):
                out = [F.zero] * (len(a) + len(b) - 1)
                for i, x in enumerate(a):
                    for j, y in enumerate(b):
                        out[i + j] = F.add(out[i + j], F.mul(x, y))
                return out
            def trim(a):
                a = list(a)
                while a and F.is_zero(a[-1]):
                    a.pop()
                return a
            xd, yd = trim(iso.xd), trim(iso.yd)
            _check(trim(pm(yd, yd)) == trim(pm(pm(xd, xd), xd)), "Velu shape")
    for v in vec["hash_to_G1"]:
        Pt = h2c.hash_to_g1(v["msg"].encode(), vec["DST_G1"].encode(), hashlib.sha256)
        _check(Pt == ((v["x"],), (v["y"],)), "RFC 9380 J.9.1")
    for v in vec["hash_to_G2"][: (5 if thorough else 2)]:
        Pt = h2c.hash_to_g2(v["msg"].encode(), vec["DST_G2"].encode(), hashlib.sha256)
        _check(Pt == (tuple(v["x"]), tuple(v["y"])), "RFC 9380 J.10.1")
    # effective cofactor of G1 really clears: random curve point -> subgroup
    Pt = params.BLS_E1.rand_point(rng)
    _check(params.BLS_E1.mul(h2c.clear_cofactor_g1(Pt), params.BLS_R) is None, "h_eff G1")
    Pt = params.BLS_E2.rand_point(rng)
    _check(params.BLS_E2.mul(h2c.clear_cofactor_g2(Pt), params.BLS_R) is None, "h_eff G2")
    _check(params.BLS_HEFF2 == 0xBC69F08F2EE75B3584C6A0EA91B352888E2A8E9145AD7689986FF031508FFE1329C2F178731DB956D82BF015D1212B02EC0EC69D7477C1AE954CBC06689F6A359894C0ADEBBF6B4E8020005AAA95551, "h_eff G2 literal (RFC 9380 8.8.2)")


def test_bls(rng):
    # Ethereum consensus-spec sign vector
    sk = 0x263DBD792F5B1BE47ED85F8938C0F29586AF0D3AC7B977F21C278FE1462040E3
    pk = bls.sk_to_pk(sk)
    _check(pk.hex() == "a491d1b0ecd9bb917989f0e74f0dea0422eac4a873e5e2644f368dffb9a6e20fd6e10c1b77654d067c0618f6e5a7f79a", "consensus-spec pubkey")
    sig = bls.sign("pop", sk, bytes(32))
    _check(sig.hex().startswith("b6ed936746e01f8ecf281f020953fbf1f01debd5657c4a383940b020b26507f6076334f91e2366c96e9ab279fb5158090352ea1c5b0c9274504f4f0e7053af24802e51e4568d164fe986834f41e55c8e850ce1f98458c0cfc9ab380b55285a55"), "consensus-spec signature")
    # EIP-2333 test case 0
    seed = bytes.fromhex("c55257c360c07c72029aebc1b53c05ed0362ada38ead3e3e9efa3708e53495531f09a6987599d18264c1e1c92f2cf141630c7a3c4ab7c81b2f001698e7463b04")
    _check(bls.keygen(seed) == 6083874454709270928345386274498605044986640685124978867557563392430687146096, "EIP-2333 case 0")
    _check(bls.sk_to_pk(1) == zcash.enc_g1(params.bls_generators()[0]), "SkToPk(1)")


def test_secp(rng):
    # RFC 6979-style vector widely published for secp256k1: key 1, "Satoshi Nakamoto"
    h = hashlib.sha256(b"Satoshi Nakamoto").digest()
    k = secp.nonce(h, (1).to_bytes(32, "big"))
    _check(k == 0x8F8A276C19F4149656B280621E358CCE24F5F52542772691EE69063B74F15D15, "RFC 6979 nonce anchor")
    v, r, s, _ = secp.sign(h, (1).to_bytes(32, "big"))
    _check(r == 0x934B1EA10A4B3C1757E2B0C017D0B6143CE3C9A7E6A4A49860D7A6AB210EE3D8, "RFC 6979 r anchor")
    _check(s == 0x2442CE9D2B916064108014783E923EC36B49743E2FFA1C4496F01A512AAFD9E5, "RFC 6979 s anchor")
    _check(secp.verify(int.from_bytes(h, "big"), r, s, secp.mul_g(1)), "model verify")
    st, Q = secp.recover(h, v, r, s)
    _check(st == "point" and Q == secp.mul_g(1), "model recover")
    try:
        from cryptography.hazmat.primitives.asymmetric import ec as cec
        for _ in range(3):
            d = rng.randrange(1, secp.N)
            pub = cec.derive_private_key(d, cec.SECP256K1()).public_key().public_numbers()
            Q = secp.mul_g(d)
            _check((pub.x, pub.y) == (Q[0][0], Q[1][0]), "k*G vs OpenSSL")
    except ImportError:
        pass


def run(seed=0, thorough=False, only=None):
    rng = random.Random(seed ^ 0x5E1F)
    tests = {
        "fields": test_fields, "scalar_mul": test_scalar_mul, "params": test_params, "zcash": test_zcash, "hkdf": test_hkdf,
        "h2c": lambda r: test_h2c(r, thorough), "bls": test_bls, "secp": test_secp,
    }
    ran = []
    for name, fn in tests.items():
        if only and name not in only:
            continue
        fn(rng)
        ran.append(name)
    return ran
