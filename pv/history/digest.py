"""Value digests of arguments, results and module constants (C20).

Digests are by VALUE: field elements digest to (kind, prime, modulus coefficients,
coefficient ints) read from raw attributes; containers are tagged so that a list and
a tuple with equal items differ (a function that turns one into the other mutated
nothing, but a result of another container type is another result)."""
from __future__ import annotations

import hashlib
import types


def _ival(c):
    return c if isinstance(c, int) else c.n


def canon(x, depth=0):
    """Nested tuple structure made of str/int/bytes only."""
    if depth > 12:
        return ("deep", type(x).__name__)
    if x is None or isinstance(x, (bool, str)):
        return ("a", repr(x))
    if isinstance(x, int):
        return ("i", x)
    if isinstance(x, float):
        return ("f", repr(x))
    if isinstance(x, (bytes, bytearray)):
        return ("b" if isinstance(x, bytes) else "ba", bytes(x))
    if isinstance(x, tuple):
        return ("t",) + tuple(canon(v, depth + 1) for v in x)
    if isinstance(x, list):
        return ("l",) + tuple(canon(v, depth + 1) for v in x)
    if isinstance(x, dict):
        return ("d",) + tuple(sorted(((canon(k, depth + 1), canon(v, depth + 1)) for k, v in x.items()), key=repr))
    if isinstance(x, (set, frozenset)):
        return ("s",) + tuple(sorted((canon(v, depth + 1) for v in x), key=repr))
    if hasattr(x, "coeffs") and hasattr(x, "modulus_coeffs"):
        return ("FQP", getattr(x, "field_modulus", None), tuple(_ival(c) for c in x.modulus_coeffs), tuple(_ival(c) for c in x.coeffs),
                getattr(x, "degree", None))
    if hasattr(x, "n") and hasattr(x, "field_modulus") and isinstance(getattr(x, "n"), int):
        return ("FQ", x.field_modulus, x.n)
    if isinstance(x, type):
        return ("class", x.__module__, x.__qualname__)
    if isinstance(x, (types.FunctionType, types.BuiltinFunctionType, types.MethodType)):
        return ("fn", getattr(x, "__module__", None), getattr(x, "__qualname__", repr(x)))
    if isinstance(x, types.ModuleType):
        return ("mod", x.__name__)
    if isinstance(x, BaseException):
        return ("exc", type(x).__name__)
    return ("obj", type(x).__module__, type(x).__qualname__)


def dg(x):
    return hashlib.sha256(repr(canon(x)).encode()).hexdigest()[:24]


DATA_TYPES = (int, bytes, bytearray, str, tuple, list, dict, set, frozenset, bool, float)


def is_data(v):
    if isinstance(v, DATA_TYPES) or v is None:
        return True
    if hasattr(v, "coeffs") and hasattr(v, "modulus_coeffs"):
        return True
    if hasattr(v, "n") and hasattr(v, "field_modulus") and not isinstance(v, type):
        return True
    return False


CLASS_ATTRS = ("field_modulus", "degree", "FQ2_MODULUS_COEFFS", "FQ12_MODULUS_COEFFS", "mc_tuples", "DST", "POP_TAG", "xmd_hash_function")


def registry(modules, raw=False):
    """{(module, name): canonical value} of every data constant and of the data attributes of every
    class defined in the given py_ecc modules (raw=True: the values themselves)."""
    conv = (lambda v: v) if raw else canon
    out = {}
    for m in modules:
        mname = m.__name__
        for k, v in list(vars(m).items()):
            if k.startswith("__"):
                continue
            if isinstance(v, type) and getattr(v, "__module__", "").startswith("py_ecc"):
                for a in CLASS_ATTRS:
                    if a in vars(v):
                        out[(v.__module__, v.__qualname__ + "." + a)] = conv(vars(v)[a])
                continue
            if is_data(v):
                out[(mname, k)] = conv(v)
    return out


def registry_digest(reg):
    return hashlib.sha256(repr(sorted(reg.items(), key=lambda kv: kv[0])).encode()).hexdigest()[:24]


def registry_diff(a, b):
    keys = sorted(set(a) | set(b), key=repr)
    return ["%s.%s" % k for k in keys if a.get(k) != b.get(k)]
