"""Known-findings classifier.  /verif/known_findings.json is committed and never
written at run time.  An entry with status "known" is a mechanism predicate: a
violation whose (property, monitor, facts) satisfy it is reported as
KNOWN-FINDING and does not affect the exit code.  "fixed" entries are
documentation only and suppress nothing."""
from __future__ import annotations

import json
import os

from . import core


def load():
    path = os.path.join(core.VERIF, "known_findings.json")
    if not os.path.exists(path):
        return []
    return json.load(open(path))["findings"]


def _matches(entry, pid, monitor, facts):
    if entry.get("status") != "known" or entry.get("property") != pid:
        return False
    if entry.get("monitor") and entry["monitor"] != monitor:
        return False
    for k, v in entry.get("predicate", {}).items():
        if facts.get(k) != v:
            return False
    return True


def classify(pid, violations, vkeys, entries):
    """-> (known_hit: [{line, count}], unknown: [violation dicts])"""
    known = {}
    unknown_keys = set()
    for key, count in vkeys.items():
        monitor, cls, facts = json.loads(key)
        for e in entries:
            if _matches(e, pid, monitor, facts if isinstance(facts, dict) else {}):
                known[e["line"]] = known.get(e["line"], 0) + count
                break
        else:
            unknown_keys.add(key)
    unknown = [v for v in violations if v["key"] in unknown_keys]
    have = {v["key"] for v in unknown}
    for key in unknown_keys - have:
        monitor, cls, facts = json.loads(key)
        unknown.append({"key": key, "monitor": monitor, "class": cls, "facts": facts,
                        "what": "(details not kept: too many violations)", "case": None})
    return [{"line": k, "count": c} for k, c in known.items()], unknown
