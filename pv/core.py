"""Recorder, verdict plumbing and helpers shared by all property checks."""
from __future__ import annotations

import collections
import hashlib
import json
import os
import random
import time
import traceback

VERIF = os.path.normpath(os.path.join(os.path.dirname(os.path.abspath(__file__)), ".."))
MAX_SAMPLES = 12
MAX_VIOLATIONS_KEPT = 80


def derive_seed(seed, prop, shard):
    h = hashlib.sha256(("%d/%s/%d" % (seed, prop, shard)).encode()).digest()
    return int.from_bytes(h[:8], "big")


def jsonable(x, depth=0):
    """Best-effort conversion of a case description to JSON-friendly data."""
    if depth > 6:
        return repr(x)[:200]
    if x is None or isinstance(x, (bool, str, float)):
        return x
    if isinstance(x, int):
        return x if abs(x) < (1 << 53) else hex(x)
    if isinstance(x, (bytes, bytearray)):
        h = bytes(x).hex()
        return {"hex": h if len(h) <= 512 else h[:512] + "...", "len": len(x)}
    if isinstance(x, dict):
        return {str(k): jsonable(v, depth + 1) for k, v in x.items()}
    if isinstance(x, (list, tuple, set, frozenset)):
        return [jsonable(v, depth + 1) for v in x]
    if hasattr(x, "n") and hasattr(x, "field_modulus"):
        return {"FQ": hex(x.n)}
    if hasattr(x, "coeffs"):
        return {"FQP": [hex(int(getattr(c, "n", c))) for c in x.coeffs]}
    return repr(x)[:200]


def full_jsonable(x):
    """Lossless encoding used for replay files (ints and bytes kept exactly)."""
    if x is None or isinstance(x, (bool, str)):
        return x
    if isinstance(x, int):
        return {"int": hex(x)}
    if isinstance(x, float):
        return {"float": repr(x)}
    if isinstance(x, (bytes, bytearray)):
        return {"bytes": bytes(x).hex()}
    if isinstance(x, dict):
        return {"dict": [[full_jsonable(k), full_jsonable(v)] for k, v in x.items()]}
    if isinstance(x, tuple):
        return {"tuple": [full_jsonable(v) for v in x]}
    if isinstance(x, list):
        return {"list": [full_jsonable(v) for v in x]}
    return {"repr": repr(x)[:500]}


def from_full_json(x):
    if x is None or isinstance(x, (bool, str)):
        return x
    if isinstance(x, dict):
        if "int" in x:
            return int(x["int"], 16)
        if "float" in x:
            return float(x["float"])
        if "bytes" in x:
            return bytes.fromhex(x["bytes"])
        if "dict" in x:
            return {from_full_json(k): from_full_json(v) for k, v in x["dict"]}
        if "tuple" in x:
            return tuple(from_full_json(v) for v in x["tuple"])
        if "list" in x:
            return [from_full_json(v) for v in x["list"]]
        if "repr" in x:
            return x["repr"]
    raise ValueError("bad replay encoding: %r" % (x,))


class Rec:
    """Per-shard recorder. Monitors and drivers report everything through it."""

    def __init__(self, prop, tier, seed, shard, nshards):
        self.prop, self.tier, self.seed = prop, tier, seed
        self.shard, self.nshards = shard, nshards
        self.rng = random.Random(derive_seed(seed, prop, shard))
        self.evals = 0
        self.monitors = collections.Counter()
        self.classes = collections.Counter()
        self.paths = collections.Counter()
        self.events = collections.Counter()
        self._distinct = set()
        self.distinct_counted = 0          # distinct by construction (exhaustive enumerations)
        self.samples = []
        self.violations = []
        self.violation_count = 0
        self.vkeys = {}
        self.exhaustive = []
        self.notes = collections.OrderedDict()
        self.unavailable = []
        self.inconclusive = []
        self.waived = {}                   # required input class -> reason it could not be produced (e.g. W4 substitution impossible)
        self.blob = None                   # free-form per-shard data for a property's offline checker (not merged)
        self.t0 = time.time()

    # -- partitioning ---------------------------------------------------
    def mine(self, i):
        """Deterministic partition of an indexed case list across shards."""
        return i % self.nshards == self.shard

    # -- case accounting ------------------------------------------------
    def case(self, cls, key=None, nontrivial=True, sample=None):
        self.classes[cls] += 1
        if nontrivial and key is not None:
            self._distinct.add(hash(key) if not isinstance(key, (bytes, str)) else hash((cls, key)))
        if sample is not None and len(self.samples) < MAX_SAMPLES and self.classes[cls] <= 2:
            self.samples.append({"class": cls, "case": jsonable(sample)})

    def count_distinct(self, n):
        self.distinct_counted += n

    def path(self, name, n=1):
        self.paths[name] += n

    def event(self, name, n=1):
        self.events[name] += n

    # -- oracle evaluations ---------------------------------------------
    def check(self, monitor, ok, cls="", what="", case=None, facts=None, expected=None, observed=None):
        self.evals += 1
        self.monitors[monitor] += 1
        if not ok:
            self.violation(monitor, cls, what, case, facts, expected, observed)
        return ok

    def ok(self, monitor, n=1):
        self.evals += n
        self.monitors[monitor] += n

    def violation(self, monitor, cls, what, case=None, facts=None, expected=None, observed=None):
        self.violation_count += 1
        fj = jsonable(facts or {})
        key = json.dumps([monitor, cls, fj], sort_keys=True)
        n = self.vkeys.get(key, 0)
        self.vkeys[key] = n + 1
        self._flush_partial()
        if n < 2 and len(self.violations) < MAX_VIOLATIONS_KEPT:
            self.violations.append({
                "key": key, "monitor": monitor, "class": cls, "what": what,
                "facts": fj,
                "case": full_jsonable(case) if case is not None else None,
                "expected": jsonable(expected), "observed": jsonable(observed),
                "shard": self.shard, "seed": self.seed, "tier": self.tier,
                "stack": "".join(traceback.format_stack(limit=8)[:-1])[-1500:],
            })

    def waive(self, cls, reason):
        self.waived[cls] = reason

    def _flush_partial(self):
        """Keep the violations found so far on disk, so that a shard that later hangs and is killed by the watchdog does not
        take them with it (written after the first violations and then every 50th)."""
        path = getattr(self, "partial_path", None)
        if path and (self.violation_count <= 3 or self.violation_count % 50 == 0):
            try:
                rep = self.report()
                rep["partial"] = True
                with open(path + ".tmp", "w") as f:
                    json.dump(rep, f)
                os.replace(path + ".tmp", path)
            except Exception:
                pass

    def exhaustive_space(self, space, size):
        self.exhaustive.append({"space": space, "size": size})

    def report(self):
        return {
            "prop": self.prop, "shard": self.shard, "evals": self.evals,
            "monitors": dict(self.monitors), "classes": dict(self.classes),
            "paths": dict(self.paths), "events": dict(self.events),
            "distinct": len(self._distinct) + self.distinct_counted,
            "samples": self.samples, "violations": self.violations,
            "violation_count": self.violation_count, "vkeys": self.vkeys,
            "exhaustive": self.exhaustive, "notes": self.notes,
            "unavailable": self.unavailable, "inconclusive": self.inconclusive, "blob": self.blob, "waived": self.waived,
            "wall_s": round(time.time() - self.t0, 2),
        }


CUR: Rec | None = None


def set_current(rec):
    global CUR
    CUR = rec
    return rec


def cur() -> Rec:
    assert CUR is not None, "no recorder installed"
    return CUR
