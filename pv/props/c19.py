"""C19 — ECDSA recovery returns the algebraically determined key or refuses."""
from __future__ import annotations

import hashlib

from ..model import secp as MS
from ..monitors import secp as mon
from ..monitors.install import import_all
from .common import call

SELFTESTS = ["secp", "scalar_mul"]
DECIDING = ["B-recover"]
RULE = ("cases = (hash, v, r, s) tuples driven through ecdsa_raw_recover on the real module; the oracle is pv.model.secp.recover "
        "(own square root with explicit parity, affine arithmetic): where the model refuses the library must raise ValueError, where the "
        "model returns Q the library must return exactly Q ((0,0) for the identity) and (r, s) must verify for Q; "
        "grid v x r x s x hash from the property's quantifier plus sign-derived high-s/swapped-v signatures and the constructed identity case; "
        "W4: the module constants P, N, A, B, G are rebound to small prime-order curves with P = 3 mod 4 and EVERY (v, r, s, z) with "
        "0 <= r < P, 0 <= s <= 2N, 0 <= z <= N+1 goes through the unchanged function (r in [N, P), r or s = 0 mod N, non-residues, identity result all occur); "
        "distinct = distinct (hash, v, r, s); non-trivial = every case (the suite has one recover call)"
        " r values whose inverse mod N has a structured bit pattern (aligned zero words, 2^64, 2^128, 2^192, low weight).")
ASSUMPTIONS = ["r >= P and negative r/s are outside the statement and not generated"]
P, N = MS.P, MS.N


def shards(tier):
    return 8 if tier == "quick" else 16


def required_classes(tier):
    return ["refuse:v", "refuse:r=0 mod N", "refuse:s=0 mod N", "refuse:r not an x-coordinate", "return", "return:r>=N", "return:s>=N",
            "return:identity", "return:high-s", "r=N", "W4:exhaustive", "soak:distinct-hashes", "r:structured-inverse"]


def one(rec, s, h, v, r, sv, tag=None):
    case = {"fn": "recover", "hash": h, "v": v, "r": r, "s": sv}
    kind, val = MS.recover(h, v, r, sv)
    if kind == "out-of-scope":
        return
    st, got = call(s.ecdsa_raw_recover, h, (v, r, sv))
    if kind == "refuse":
        cls = "refuse:" + val
        rec.case(cls, ("c19", h, v, r, sv), sample={"hash": h, "v": v, "r": r, "s": sv, "outcome": repr(got) if st == "exc" else got})
        if tag:
            rec.case(tag, None, nontrivial=False)
        rec.check("B-recover", st == "exc" and isinstance(got, ValueError), cls,
                  "ecdsa_raw_recover must raise ValueError (%s) but %s" % (val, "returned " + repr(got) if st == "ok" else "raised " + repr(got)),
                  case=case, facts={"fn": "recover", "kind": "missing-refusal" if st == "ok" else "wrong-exception", "reason": val}, observed=got if st == "ok" else repr(got))
        return
    Q = val
    cls = "return:identity" if Q is None else "return"
    rec.case(cls, ("c19", h, v, r, sv), sample={"hash": h, "v": v, "r": r, "s": sv, "Q": got if st == "ok" else repr(got)})
    if r >= N:
        rec.case("return:r>=N", None, nontrivial=False)
    if sv >= N:
        rec.case("return:s>=N", None, nontrivial=False)
    if tag:
        rec.case(tag, None, nontrivial=False)
    if st != "ok":
        rec.check("B-recover", False, cls, "ecdsa_raw_recover raised %r where a key is determined" % (got,), case=case,
                  facts={"fn": "recover", "kind": "unexpected-raise"}, expected=MS.from_pt(Q))
        return
    rec.check("B-recover", tuple(got) == MS.from_pt(Q), cls, "ecdsa_raw_recover returned a point other than r^-1 (sR - zG)", case=case,
              facts={"fn": "recover", "kind": "value"}, expected=MS.from_pt(Q), observed=tuple(got))
    if Q is not None and tuple(got) != (0, 0):
        z = int.from_bytes(h, "big")
        rec.check("B-recover.verify", MS.verify(z, r % N, sv % N, MS.to_pt(got)), cls, "(r, s) does not verify under the returned key", case=case,
                  facts={"fn": "recover", "kind": "verify"})


def find_x(rng, lo, hi, valid, near=None):
    x = near if near is not None else rng.randrange(lo, hi)
    step = 1
    while True:
        if lo <= x < hi and bool(MS.E.lift_x((x,))) == valid:
            return x
        x += step


def run(rec):
    import_all()
    import py_ecc.secp256k1.secp256k1 as s
    mon.EVERY.update({"jdouble": 211, "jadd": 199, "inv": 11, "fromjac": 5})
    mon.install(["inv", "jdouble", "jadd", "jmul", "fromjac"])
    rng = rec.rng
    quick = rec.tier == "quick"
    vs = [0, 1, 26, 27, 28, 29, 35, 36]
    rs = [0, 1, 2, 3, N - 1, N, N + 1, P - 1, P - 2,
          find_x(rng, N, P, True, N + 2), find_x(rng, N, P, False, N + 2),
          find_x(rng, 1, N, True, N - 5000), find_x(rng, 1, N, False, N - 5000),
          find_x(rng, N, P, True, P - 5000), find_x(rng, N, P, False, P - 5000)]
    rs += [find_x(rng, 1, N, True) for _ in range(3 if quick else 12)] + [find_x(rng, 1, N, False) for _ in range(3 if quick else 12)]
    ss = [0, 1, 2, (N - 1) // 2, (N + 1) // 2, N - 1, N, N + 1, 2 * N, 2 * N + 7, 3 * N, rng.randrange(1, N), rng.getrandbits(300), rng.randrange(1, N)]
    hs = [bytes(32), b"\xff" * 32, (N - 1).to_bytes(32, "big"), N.to_bytes(32, "big"), (N + 1).to_bytes(32, "big"), b"", b"\x01", rng.randbytes(31),
          rng.randbytes(33), rng.randbytes(64), rng.randbytes(32), rng.randbytes(32)]
    i = 0
    for v in vs:
        for r in rs:
            for sv in ss:
                for h in (hs if not quick else rng.sample(hs, 4)):
                    i += 1
                    if rec.mine(i):
                        one(rec, s, h, v, r, sv, "r=N" if r == N else None)
    # signatures from the signer, high-s and swapped v
    orig_sign = s.ecdsa_raw_sign
    for _ in range(400 if quick else 40000):
        i += 1
        if not rec.mine(i):
            continue
        d, h = rng.randrange(1, N), rng.randbytes(rng.choice([32, 32, 32, 0, 20, 64]))
        v, r, sv, _ = MS.sign(h, d.to_bytes(32, "big"))
        one(rec, s, h, v, r, sv)
        one(rec, s, h, 55 - v, r, N - sv, "return:high-s")      # high-s with the matching parity: same key
        one(rec, s, h, v, r, N - sv, "return:high-s")            # high-s, unswapped v: another key
        one(rec, s, h, 55 - v, r, sv)
    # the identity case: s*R == z*G
    for _ in range(12 if quick else 200):
        i += 1
        if not rec.mine(i):
            continue
        k = rng.randrange(1, N)
        R = MS.mul_g(k)
        r, sv = R[0][0], rng.randrange(1, N)
        z = sv * k % N
        if r % N == 0:
            continue
        one(rec, s, z.to_bytes(32, "big"), 27 + (R[1][0] & 1), r, sv)
    # r whose INVERSE mod N (the scalar of the last multiplication) has a structured bit pattern: aligned zero words, low weight, 2^k
    from .common import bit_patterns
    tgt = bit_patterns(256, rng, 3 if quick else 12) + [1 << 64, 1 << 128, (1 << 128) + 1, 1 << 192, (1 << 192) | (1 << 3), 3 << 127]
    for t in tgt:
        i += 1
        if not rec.mine(i) or not (0 < t < N):
            continue
        r_ = pow(t, -1, N)
        for rr in (r_, r_ + N if r_ + N < P else r_):
            for v in (27, 28):
                one(rec, s, rng.randbytes(32), v, rr, rng.randrange(1, N), "r:structured-inverse")
    rec.case("r:structured-inverse", None, nontrivial=False)
    w4_small_curves(rec, s, quick)
    # soak on the real curve: more distinct hashes than a bounded table could hold, with the first ones re-probed afterwards
    if rec.shard == 1 or not quick:
        from .common import soak_size, soak_then_reprobe
        d0 = rng.randrange(1, N)
        probes_h = [rng.randbytes(32) for _ in range(3)]
        sigs0 = [MS.sign(h, d0.to_bytes(32, "big"))[:3] for h in probes_h]
        v1, r1, s1 = sigs0[0]

        def distinct_hashes():
            j = 0
            while True:
                j += 1
                h = hashlib.sha256(b"soak%d/%d" % (rec.seed, j)).digest()
                yield (lambda h=h: one(rec, s, h, v1, r1, s1))
        soak_then_reprobe(rec, "distinct-hashes", [lambda h=h, sg=sg: one(rec, s, h, sg[0], sg[1], sg[2]) for h, sg in zip(probes_h, sigs0)], distinct_hashes(),
                          soak_size(["py_ecc.secp256k1.secp256k1"], cap=2500 if quick else 20000))
    else:
        rec.case("soak:distinct-hashes", None, nontrivial=False)
    # random fill
    for _ in range(1500 if quick else 300000):
        i += 1
        if not rec.mine(i):
            continue
        r = rng.choice([rng.randrange(0, P), rng.randrange(N, P), rng.randrange(0, 1 << 20)])
        one(rec, s, rng.randbytes(rng.choice([32, 32, 8, 48])), rng.choice([27, 28, 27, 28, 0, 29]), r, rng.choice([rng.randrange(0, N), rng.getrandbits(260)]))


def small_curve_recover(ctx, z, v, r, sv):
    """The recovery oracle on an arbitrary short-Weierstrass curve of prime order (model arithmetic only)."""
    E, N_, P_ = ctx.E, ctx.N, ctx.P
    if v not in (27, 28):
        return ("refuse", "v")
    if r % N_ == 0:
        return ("refuse", "r=0 mod N")
    if sv % N_ == 0:
        return ("refuse", "s=0 mod N")
    Rp = None
    for Pt in E.lift_x((r % P_,)):
        if (Pt[1][0] & 1) == (0 if v == 27 else 1):
            Rp = Pt
    if Rp is None:
        return ("refuse", "r not an x-coordinate")
    T = E.add(E.mul_affine(Rp, sv % N_), E.neg(E.mul_affine(ctx.G, z % N_)))
    return ("point", E.mul_affine(T, pow(r % N_, -1, N_)) if T is not None else None)


def w4_small_curves(rec, s, quick):
    """ecdsa_raw_recover with the module constants rebound to small prime-order curves (P = 3 mod 4, as the library's
    square root requires): EVERY (v, r, s, z) with 0 <= r < P, 0 <= s <= 2N, 0 <= z <= N+1 -- including r in [N, P),
    r = 0 mod N, s = 0 mod N, x-coordinates with no point and the identity result -- through the unchanged function."""
    from .c18 import small_prime_order_curves
    saved = {k: getattr(s, k) for k in ("P", "N", "A", "B", "Gx", "Gy", "G")}
    curves = [cv for cv in small_prime_order_curves(23 if quick else 47, per_p=2) if cv[0] % 4 == 3]
    try:
        for ci, (p, A_, B_, n, g, pts) in enumerate(curves):
            if not rec.mine(ci):
                continue
            s.P, s.N, s.A, s.B, s.Gx, s.Gy, s.G = p, n, A_, B_, g[0][0], g[1][0], (g[0][0], g[1][0])
            ctx = mon.Ctx(p, A_, B_, n, g)
            mon.set_ctx(ctx)
            if not mon.substitution_effective(s, ctx):
                rec.unavailable.append("W4: rebinding secp256k1 constants had no effect (p=%d A=%d B=%d)" % (p, A_, B_))
                rec.waive("W4:exhaustive", "the module does not follow its constants when they are rebound")
                continue
            cnt = 0
            for v in (27, 28, 26, 29):
                for r in range(p):
                    for sv in range(0, 2 * n + 1):
                        for z in range(0, n + 2):
                            h = bytes([z])
                            kind, val = small_curve_recover(ctx, z, v, r, sv)
                            st, got = call(s.ecdsa_raw_recover, h, (v, r, sv))
                            cnt += 1
                            case = {"fn": "recover/W4", "curve": [p, A_, B_, n, g[0][0], g[1][0]], "z": z, "v": v, "r": r, "s": sv}
                            if kind == "refuse":
                                rec.check("B-recover", st == "exc" and isinstance(got, ValueError), "W4:refuse", "small curve p=%d: recover must raise ValueError (%s) but %s" % (
                                    p, val, "returned %r" % (got,) if st == "ok" else "raised %r" % (got,)), case=case, facts={"fn": "recover", "kind": "missing-refusal" if st == "ok" else "wrong-exception", "reason": val, "w4": True})
                            else:
                                exp = (0, 0) if val is None else (val[0][0], val[1][0])
                                rec.check("B-recover", st == "ok" and tuple(got) == exp, "W4:return", "small curve p=%d: recover returned %r, the determined key is %r" % (p, got, exp),
                                          case=case, facts={"fn": "recover", "kind": "value", "w4": True}, expected=exp, observed=got if st == "ok" else repr(got))
            rec.classes["W4:exhaustive"] += cnt
            rec.count_distinct(cnt)
            rec.exhaustive_space("ecdsa_raw_recover on y^2 = x^3 + %dx + %d over GF(%d), N = %d: every v in {26..29}, 0 <= r < P, 0 <= s <= 2N, 0 <= z <= N+1" % (A_, B_, p, n), cnt)
    finally:
        for k, v in saved.items():
            setattr(s, k, v)
        mon.set_ctx(mon.Ctx(MS.P, 0, 7, MS.N, MS.G))


def replay(rec, case):
    import_all()
    import py_ecc.secp256k1.secp256k1 as s
    if case.get("fn") == "recover/W4":
        p, A_, B_, n, gx, gy = case["curve"]
        saved = {k: getattr(s, k) for k in ("P", "N", "A", "B", "Gx", "Gy", "G")}
        try:
            s.P, s.N, s.A, s.B, s.Gx, s.Gy, s.G = p, n, A_, B_, gx, gy, (gx, gy)
            ctx = mon.Ctx(p, A_, B_, n, ((gx,), (gy,)))
            kind, val = small_curve_recover(ctx, case["z"], case["v"], case["r"], case["s"])
            st, got = call(s.ecdsa_raw_recover, bytes([case["z"]]), (case["v"], case["r"], case["s"]))
            if kind == "refuse":
                rec.check("B-recover", st == "exc" and isinstance(got, ValueError), "W4:refuse", "must raise ValueError (%s), got %r" % (val, got))
            else:
                exp = (0, 0) if val is None else (val[0][0], val[1][0])
                rec.check("B-recover", st == "ok" and tuple(got) == exp, "W4:return", "returned %r, determined key %r" % (got, exp))
        finally:
            for k, v in saved.items():
                setattr(s, k, v)
        return
    one(rec, s, case["hash"], case["v"], case["r"], case["s"])
