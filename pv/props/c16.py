"""C16 — HKDF and KeyGen match RFC 5869 and the BLS draft for all inputs."""
from __future__ import annotations

from ..model import bls as MB
from ..model import params
from ..monitors import h2c as mon
from ..monitors.install import import_all
from .common import call

SELFTESTS = ["hkdf", "bls"]
DECIDING = ["M-hkdf.extract", "M-hkdf.expand", "B-keygen"]
RULE = ("cases = calls of hkdf_extract / hkdf_expand (judged by monitors wrapped around the functions against pv.model.hkdf: "
        "RFC 5869 on an HMAC written on hashlib.sha256 only) and of KeyGen on the three ciphersuite classes (judged against "
        "pv.model.bls.keygen, range [1, r-1], determinism across interleaved calls); W5 fault injection replaces hkdf_expand as "
        "seen by the ciphersuites module for the first j calls with bytes that reduce to 0 mod r, driving the retry loop; "
        "distinct = distinct argument tuples; non-trivial = anything but the three RFC 5869 A.1-A.3 inputs")
ASSUMPTIONS = ["hashlib.sha256 is correct (shared by model and library)"]
R = params.BLS_R


def shards(tier):
    return 8 if tier == "quick" else 16


def required_classes(tier):
    return ["returned-buffer-mutated", "soak:distinct-keys", "mutable-buffer-reused", "extract", "expand", "expand:L=0", "expand:L=8160", "keygen", "keygen:retry(W5)", "keygen:determinism"]


LEN_Q = [0, 1, 31, 32, 33, 63, 64, 65, 127, 128, 129, 300]
L_Q = [0, 1, 31, 32, 33, 63, 64, 65, 255, 256, 8159, 8160]


def keygen_case(rec, cs, suite_cls, ikm, info, cls="keygen"):
    st, sk = call(suite_cls.KeyGen, ikm, info)
    exp = MB.keygen(ikm, info)
    case = {"fn": "KeyGen", "ikm": ikm, "info": info}
    rec.case(cls, ("keygen", ikm, info), sample={"fn": "KeyGen", "ikm_len": len(ikm), "key_info_len": len(info), "result": sk if st == "ok" else repr(sk)})
    if st != "ok":
        rec.check("B-keygen", False, cls, "KeyGen raised %r" % (sk,), case=case, facts={"fn": "KeyGen", "kind": "raise"})
        return None
    rec.check("B-keygen", type(sk) is int and 1 <= sk < R, cls, "KeyGen result not in [1, r-1]", case=case,
              facts={"fn": "KeyGen", "kind": "range"}, observed=sk)
    rec.check("B-keygen", sk == exp, cls, "KeyGen differs from draft v4 KeyGen", case=case, facts={"fn": "KeyGen", "kind": "value"},
              expected=exp, observed=sk)
    return sk


def w5_case(rec, cs, suite_cls, ikm, info, j, mon="B-keygen"):
    """Force the first j hkdf_expand outputs (as seen by ciphersuites) to be = 0 mod r."""
    inner = getattr(cs, "hkdf_expand", None)
    if inner is None:
        rec.unavailable.append("W5: py_ecc.bls.ciphersuites.hkdf_expand")
        return
    n = [0]

    def stub(prk, info_, length):
        n[0] += 1
        if n[0] <= j:
            return bytearray(((n[0] % 3) * R).to_bytes(48, "big"))
        return inner(prk, info_, length)

    cs.hkdf_expand = stub
    try:
        from ..monitors import bls as _bmon
        _bmon._FAULT[0] += 1
        try:
            st, sk = call(suite_cls.KeyGen, ikm, info)
        finally:
            _bmon._FAULT[0] -= 1
    finally:
        cs.hkdf_expand = inner
    if n[0] == 0:
        rec.unavailable.append("W5: hkdf_expand stub was never called (KeyGen no longer resolves it through the module)")
        return
    exp = MB.keygen(ikm, info, forced_zero_rounds=j)
    case = {"fn": "KeyGen/W5", "ikm": ikm, "info": info, "j": j}
    rec.case("keygen:retry(W5)", ("w5", ikm, info, j), sample={"fn": "KeyGen with first %d candidate keys forced to 0" % j, "ikm_len": len(ikm), "hkdf_expand_calls": n[0]})
    rec.path("keygen_retry_iterations=%d" % n[0])
    if st != "ok":
        rec.check(mon, False, "keygen:retry(W5)", "KeyGen raised %r in the retry path" % (sk,), case=case, facts={"fn": "KeyGen", "kind": "retry-raise"})
        return
    rec.check(mon, n[0] == j + 1 and type(sk) is int and 1 <= sk < R and sk == exp, "keygen:retry(W5)",
              "KeyGen retry loop: expected %d hkdf_expand calls and the key of attempt %d" % (j + 1, j + 1), case=case,
              facts={"fn": "KeyGen", "kind": "retry"}, expected=exp, observed={"sk": sk, "calls": n[0]})
    return sk


def run(rec):
    import_all()
    mon.install(["extract", "expand"])
    import py_ecc.bls.hash as hm
    import py_ecc.bls.ciphersuites as cs
    suites = [cs.G2Basic, cs.G2MessageAugmentation, cs.G2ProofOfPossession]
    rng = rec.rng
    quick = rec.tier == "quick"
    i = 0
    lens = LEN_Q if quick else list(range(0, 301))
    # extract
    for sl in lens:
        for il in (LEN_Q if quick else rng.sample(range(0, 301), 12) + [0, 64, 65]):
            i += 1
            if not rec.mine(i):
                continue
            salt, ikm = rng.randbytes(sl), rng.randbytes(il)
            rec.case("extract", ("ex", salt, ikm), sample={"fn": "hkdf_extract", "salt_len": sl, "ikm_len": il})
            call(hm.hkdf_extract, salt, ikm)
    # expand
    Ls = L_Q if quick else list(range(0, 8161))
    for L in Ls:
        for rep in range(3 if quick else 1):
            i += 1
            if not rec.mine(i):
                continue
            prk = rng.randbytes(rng.choice([32, 32, 32, 0, 1, 64, 65, 100]))
            info = rng.randbytes(rng.choice(LEN_Q))
            cls = "expand:L=0" if L == 0 else "expand:L=8160" if L == 8160 else "expand"
            rec.case(cls, ("exp", prk, info, L), sample={"fn": "hkdf_expand", "prk_len": len(prk), "info_len": len(info), "length": L})
            call(hm.hkdf_expand, prk, info, L)
    for il in lens:
        i += 1
        if not rec.mine(i):
            continue
        prk, info, L = rng.randbytes(32), rng.randbytes(il), rng.choice([1, 42, 48, 82, 300])
        rec.case("expand", ("exp", prk, info, L))
        call(hm.hkdf_expand, bytearray(prk), bytearray(info), L)
    # the SAME mutable buffer object passed again after its contents were changed in place (a memo keyed by object identity, or
    # comparing a stored reference with itself, would answer for the old contents), and a fresh bytes copy right afterwards
    for rep in range(4 if quick else 40):
        i += 1
        if not rec.mine(i):
            continue
        n = rng.choice([16, 32, 33, 64])
        buf = bytearray(rng.randbytes(n))
        ikm = rng.randbytes(rng.choice([0, 32, 48]))
        info = bytearray(rng.randbytes(8))
        rec.case("mutable-buffer-reused", ("mut", bytes(buf), ikm), sample={"fn": "hkdf_extract / hkdf_expand", "what": "bytearray key changed in place between consecutive calls"})
        for step in range(3):
            call(hm.hkdf_extract, buf, ikm)
            call(hm.hkdf_expand, buf, info, 42)
            call(hm.hkdf_expand, bytes(buf), bytes(info), 42)
            buf[rng.randrange(len(buf))] ^= 0xFF              # in place
            info[0] = (info[0] + 1) % 256
            call(hm.hkdf_extract, buf, ikm)
            call(hm.hkdf_extract, bytes(buf), ikm)
            call(hm.hkdf_expand, buf, info, 42)
    # the caller wipes / changes the RETURNED buffer and asks again: results must be fresh objects (or immutable), never an alias of
    # something the library keeps
    for rep in range(3 if quick else 30):
        i += 1
        if not rec.mine(i):
            continue
        prk, info, L = rng.randbytes(32), rng.randbytes(rng.choice([0, 6, 50])), rng.choice([32, 48, 64, 100])
        rec.case("returned-buffer-mutated", ("retmut", prk, info, L), sample={"fn": "hkdf_expand", "what": "returned bytearray zeroised by the caller, same call repeated"})
        for step in range(3):
            st, out = call(hm.hkdf_expand, prk, info, L)
            if st == "ok" and isinstance(out, (bytearray, list)):
                for j in range(len(out)):
                    out[j] = 0
            st2, ex = call(hm.hkdf_extract, prk, info)
            if st2 == "ok" and isinstance(ex, bytearray):
                ex[:] = b"\xff" * len(ex)
        for S_ in suites:
            st, sk1 = call(S_.KeyGen, prk, info)
            st, sk2 = call(S_.KeyGen, prk, info)
    # soak: distinct keys through extract / expand, first ones re-probed
    if rec.shard == 0 or not quick:
        from .common import soak_size, soak_then_reprobe
        k0 = [rng.randbytes(32) for _ in range(3)]

        def distinct_keys():
            j = 0
            while True:
                j += 1
                kk = j.to_bytes(4, "big") * 8
                yield (lambda kk=kk: (call(hm.hkdf_extract, kk, b"ikm"), call(hm.hkdf_expand, kk, b"info", 33)))
        soak_then_reprobe(rec, "distinct-keys", [lambda kk=kk: (call(hm.hkdf_extract, kk, b"ikm"), call(hm.hkdf_expand, kk, b"info", 33), call(hm.hkdf_extract, bytearray(kk), b"ikm")) for kk in k0],
                          distinct_keys(), soak_size(["py_ecc.bls.hash", "py_ecc.bls.ciphersuites"]))
    else:
        rec.case("soak:distinct-keys", None, nontrivial=False)
    # KeyGen
    ikm_lens = [0, 1, 31, 32, 33, 64, 128] if quick else list(range(0, 129))
    info_lens = [0, 1, 32, 64] if quick else list(range(0, 65))
    done = []
    for a in ikm_lens:
        for b in info_lens:
            i += 1
            if not rec.mine(i):
                continue
            ikm, info = rng.randbytes(a), rng.randbytes(b)
            sk = keygen_case(rec, cs, suites[i % 3], ikm, info)
            done.append((ikm, info, sk))
    for rep in range(30 if quick else 300):
        i += 1
        if not rec.mine(i):
            continue
        ikm = rng.choice([bytes(32), b"\xff" * 32, rng.randbytes(32), rng.randbytes(rng.randrange(0, 129))])
        info = rng.choice([b"", rng.randbytes(rng.randrange(0, 65))])
        sk = keygen_case(rec, cs, suites[i % 3], ikm, info)
        done.append((ikm, info, sk))
    # determinism: repeat earlier calls after unrelated ones, on another suite class
    rng.shuffle(done)
    for ikm, info, sk in done[: (20 if quick else 200)]:
        st, again = call(suites[rng.randrange(3)].KeyGen, ikm, info)
        rec.case("keygen:determinism", None, nontrivial=False)
        rec.check("B-keygen", st == "ok" and again == sk, "keygen:determinism", "KeyGen is not deterministic",
                  case={"fn": "KeyGen", "ikm": ikm, "info": info}, facts={"fn": "KeyGen", "kind": "determinism"}, expected=sk, observed=again)
    # W5: retry loop
    for j in (1, 2, 3, 5):
        for rep in range(2 if quick else 10):
            i += 1
            if not rec.mine(i):
                continue
            w5_case(rec, cs, suites[i % 3], rng.randbytes(rng.choice([0, 32, 33])), rng.randbytes(rng.choice([0, 7])), j)


def replay(rec, case):
    import_all()
    mon.install(["extract", "expand"])
    import py_ecc.bls.hash as hm
    import py_ecc.bls.ciphersuites as cs
    fn = case["fn"]
    if fn == "hkdf_extract":
        call(hm.hkdf_extract, case["salt"], case["ikm"])
    elif fn == "hkdf_expand":
        call(hm.hkdf_expand, case["prk"], case["info"], case["length"])
    elif fn == "KeyGen":
        keygen_case(rec, cs, cs.G2Basic, case["ikm"], case["info"])
    elif fn == "KeyGen/W5":
        w5_case(rec, cs, cs.G2Basic, case["ikm"], case["info"], case["j"])
