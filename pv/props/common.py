"""Small helpers shared by the property drivers."""
from __future__ import annotations

import hashlib

HASHES = {
    "sha256": hashlib.sha256, "sha512": hashlib.sha512, "sha384": hashlib.sha384, "sha224": hashlib.sha224,
    "sha1": hashlib.sha1, "md5": hashlib.md5, "sha3_256": hashlib.sha3_256, "sha3_512": hashlib.sha3_512,
    "blake2b": hashlib.blake2b, "blake2s": hashlib.blake2s,
}


class CallTimeout(BaseException):
    """Raised by the per-call alarm inside a library call that does not return (BaseException so that library code cannot swallow it)."""


CALL_LIMIT_S = int(__import__("os").environ.get("PV_CALL_LIMIT_S", "240"))


def _alarm(signum, frame):
    raise CallTimeout()


def call(fn, *a, **k):
    """Run one library call.  A call that does not return within CALL_LIMIT_S (orders of magnitude above any legitimate
    cost) is abandoned so that the rest of the workload - and the violations already recorded - are not lost with the shard;
    the abandoned call itself is reported as an inconclusive reason, not as a violation (no wall-clock verdicts)."""
    import signal
    import threading
    timed = threading.current_thread() is threading.main_thread() and CALL_LIMIT_S > 0
    if timed:
        old = signal.signal(signal.SIGALRM, _alarm)
        signal.setitimer(signal.ITIMER_REAL, CALL_LIMIT_S)
    try:
        return ("ok", fn(*a, **k))
    except CallTimeout:
        from .. import core
        rec = core.CUR
        if rec is not None and len(rec.inconclusive) < 8:
            rec.inconclusive.append("a library call (%s) did not return within %d s and was abandoned" % (getattr(fn, "__name__", repr(fn))[:60], CALL_LIMIT_S))
        return ("exc", TimeoutError("call abandoned after %d s" % CALL_LIMIT_S))
    except RecursionError as e:
        return ("exc", e)
    except Exception as e:
        return ("exc", e)
    finally:
        if timed:
            signal.setitimer(signal.ITIMER_REAL, 0)
            signal.signal(signal.SIGALRM, old)


def msg_pool(rng, big=False):
    """Messages around SHA-256 padding/block boundaries, binary, multi-KiB."""
    out = [b"", b"\x00", b"a", b"\xff", b"abc", bytes(range(256))]
    for n in (31, 32, 33, 47, 48, 55, 56, 63, 64, 65, 71, 72, 79, 80, 119, 120, 127, 128, 129, 200, 255, 256, 257):
        out.append(rng.randbytes(n))
    out.append(rng.randbytes(1024))
    out.append(rng.randbytes(4096))
    if big:
        out.append(rng.randbytes(65536))
    return out


def scalar_pool(r, rng, per_bitlen=1):
    """Boundary and per-bit-length scalars in [1, r-1]."""
    out = [1, 2, 3, r - 2, r - 1, (r - 1) // 2, (r + 1) // 2]
    for k in range(1, r.bit_length() + 1):
        for v in ((1 << (k - 1)), (1 << k) - 1)[:per_bitlen] if per_bitlen == 1 else ((1 << (k - 1)), (1 << k) - 1):
            if 1 <= v < r:
                out.append(v)
    return out


# ---------------------------------------------------------------------------------------------- magic numbers of the target
def harvest_int_literals(modnames, lo=2, hi=10 ** 9):
    """Integer literals that occur in the SOURCE of the given modules (as a fuzzer's dictionary of magic values): chunk
    sizes, table capacities, thresholds.  Workloads use them as lengths / counts / scalars, together with their neighbours
    and their roundings to block sizes, because a special case in the code is usually written with such a literal."""
    import ast
    import importlib
    import inspect
    out = set()
    for name in modnames:
        try:
            src = inspect.getsource(importlib.import_module(name))
            tree = ast.parse(src)
        except Exception:
            continue
        names = {}
        for node in ast.walk(tree):                       # NAME = <int literal>  (so that 1 << _BITS can be evaluated below)
            if isinstance(node, (ast.Assign, ast.AnnAssign)) and isinstance(getattr(node, "value", None), ast.Constant) and isinstance(node.value.value, int):
                for t in (node.targets if isinstance(node, ast.Assign) else [node.target]):
                    if isinstance(t, ast.Name):
                        names[t.id] = node.value.value
        for node in ast.walk(tree):
            if isinstance(node, ast.Constant) and isinstance(node.value, int) and not isinstance(node.value, bool):
                if lo <= node.value <= hi:
                    out.add(node.value)
            elif isinstance(node, ast.BinOp) and isinstance(node.op, (ast.LShift, ast.Pow, ast.Mult)):
                try:
                    v = eval(compile(ast.Expression(node), "<lit>", "eval"), {"__builtins__": {}}, dict(names))     # constant expressions like 1 << 14, 1 << _BITS
                    if isinstance(v, int) and lo <= v <= hi:
                        out.add(v)
                except Exception:
                    pass
    return sorted(out)


def soak_size(modnames, default=1100, cap=20000):
    """How many DISTINCT arguments a soak phase should push through a function so that any bounded table written with a
    literal capacity in these modules overflows: a bit more than the largest plausible capacity literal, within a budget."""
    lits = [v for v in harvest_int_literals(modnames, 64, cap) if v & (v - 1) == 0 or v % 100 == 0 or v % 128 == 0]
    return max([default] + [int(v * 1.07) + 8 for v in lits if v <= cap])


def soak_then_reprobe(rec, label, probes, soak_iter, n):
    """Bounded tables (rings, LRU caches) only misbehave once they are full: run the probes, push n DISTINCT valid arguments
    through the function(s) under observation, run the probes again.  Every call is judged by the installed monitors / the
    probes' own oracles; this helper adds no oracle."""
    rec.case("soak:" + label, None, nontrivial=False)
    for p in probes:
        p()
    k = 0
    for thunk in soak_iter:
        thunk()
        k += 1
        if k >= n:
            break
    rec.event("soak:%s:distinct-arguments" % label, k)
    for p in probes:
        p()


def overlapping_pairs(spans):
    """Number of pairs of calls from DIFFERENT threads whose [start, end] intervals intersect (spans[t] = list of (start, end))."""
    ev = sorted((s, e, t) for t, sp in enumerate(spans) for s, e in sp)
    active, n = [], 0
    for s, e, t in ev:
        active = [(e2, t2) for e2, t2 in active if e2 > s]
        n += sum(1 for e2, t2 in active if t2 != t)
        active.append((e, t))
    return n


def threaded_reprobe(rec, label, thunks, threads=4, rounds=1, switch_interval=2e-5):
    """Concurrent use.  `thunks` = [(name, fn)]; every fn() calls the library with fixed valid arguments and returns a value.
    Each thunk is first run on its own in the main thread with the monitors on (that call is judged like any other and its value
    is the baseline); then `threads` threads run all thunks at the same time, each in another rotation, with a very short
    interpreter switch interval so that calls of different threads interleave inside the library.  Oracle: every value obtained
    under concurrency has the same value digest (or exception type) as the single-threaded baseline.  The monitors are in
    pass-through while the threads run (their bookkeeping is single-threaded); nothing but the library runs concurrently."""
    import sys
    import threading
    from ..history import digest as D
    from ..monitors import install as _install

    def outcome(fn):
        try:
            return "ok:" + D.dg(fn())
        except CallTimeout:
            raise
        except Exception as e:
            return "exc:" + type(e).__name__
    rec.case("threads:" + label, None, nontrivial=False)
    base = [outcome(fn) for _, fn in thunks]
    again = [outcome(fn) for _, fn in thunks]
    stable = [i for i in range(len(thunks)) if base[i] == again[i]]          # a thunk that is not repeatable on its own is another check's business
    import time
    results = [[] for _ in range(threads)]
    spans = [[] for _ in range(threads)]
    start = threading.Barrier(threads)

    def worker(t):
        try:
            start.wait(timeout=60)
        except threading.BrokenBarrierError:
            pass
        for r_ in range(rounds):
            for j in range(len(stable)):
                # round 0: every thread in the same order (the same operation in all threads at once); later rounds: spread out
                i = stable[(j + t * r_ * max(1, len(stable) // threads) + r_) % len(stable)]
                t0 = time.perf_counter()
                o_ = outcome(thunks[i][1])
                results[t].append((i, o_))
                spans[t].append((t0, time.perf_counter()))
    old = sys.getswitchinterval()
    _install.PASSTHROUGH[0] = True
    sys.setswitchinterval(switch_interval)
    try:
        ths = [threading.Thread(target=worker, args=(t,), daemon=True) for t in range(threads)]
        for th in ths:
            th.start()
        for th in ths:
            th.join()
    finally:
        sys.setswitchinterval(old)
        _install.PASSTHROUGH[0] = False
    n = 0
    for t in range(threads):
        for i, got in results[t]:
            n += 1
            rec.case("threads:" + label, ("thr", label, thunks[i][0], t, n), nontrivial=True,
                     sample={"fn": thunks[i][0], "threads": threads, "what": "same call while %d other threads are inside the library" % (threads - 1)} if n <= 2 else None)
            rec.check("B-driver.threads", got == base[i], "threads:" + label,
                      "%s returns another value (or raises) when other threads are inside the library at the same time: single-threaded %s, concurrent %s" % (thunks[i][0], base[i][:40], got[:40]),
                      case={"fn": "threads", "label": label, "thunk": thunks[i][0], "threads": threads}, facts={"fn": thunks[i][0].split("[")[0], "kind": "differs-under-concurrency"})
    ov = overlapping_pairs(spans)
    rec.event("threads:%s:overlapping-call-pairs(different threads)" % label, ov)
    if n and not ov:
        rec.inconclusive.append("threads:%s: no two calls of different threads overlapped in time - the concurrent phase observed no interleaving" % label)
    rec.event("threads:%s:concurrent-calls" % label, n)
    rec.event("threads:%s:threads" % label, threads)


# ---------------------------------------------------------------------------------------------- value shapes
class IntSub(int):
    """A legal int (isinstance(x, int) holds) that is not exactly `int`: type(x) is int checks and C fast paths treat it differently."""


class BytesSub(bytes):
    """A legal bytes object of another exact type."""


def bit_patterns(nbits, rng, n_random=4):
    """Integers below 2**nbits with structured bit patterns: zero / 0xFF bytes at chosen offsets, long runs of zeros or ones,
    alternating patterns, low and high Hamming weight, single bits and single holes."""
    nb = (nbits + 7) // 8
    full = (1 << nbits) - 1
    out = {0xAAAAAAAAAAAAAAAAAAAAAAAAAAAAAAAAAAAAAAAAAAAAAAAAAAAAAAAAAAAAAAAAAAAAAAAAAAAAAAAAAAAAAAAAAAAAAAAA & full,
           0x5555555555555555555555555555555555555555555555555555555555555555555555555555555555555555555555555 & full,
           full, full >> 1, full ^ (full >> (nbits // 2)), full >> (nbits // 2), 1 << (nbits - 1), (1 << (nbits - 1)) | 1}
    if nbits >= 128:
        # two-sided sparse: a high bit (or small cluster) and a low one with nothing in between
        for hi_ in (nbits - 1, nbits - 2, nbits - 17, (nbits * 4) // 5):
            out |= {(1 << hi_) | 1, (1 << hi_) + 12345, (1 << hi_) | (1 << 3), (3 << (hi_ - 1)) | (1 << 7), (1 << hi_) | (1 << (nbits // 8))}
    base = rng.getrandbits(nbits) | (1 << (nbits - 1))
    for off in {0, 1, nb // 2, nb - 2, nb - 1} | {rng.randrange(nb) for _ in range(n_random)}:
        out.add(base & ~(0xFF << (8 * off)) & full)                # a zero byte at this offset
        out.add((base | (0xFF << (8 * off))) & full)               # an 0xFF byte
        out.add(base & ~(((1 << 64) - 1) << (8 * off)) & full)     # eight zero bytes
    for _ in range(n_random):
        w = rng.randrange(1, 4)
        v = 0
        for _ in range(w):
            v |= 1 << rng.randrange(nbits)
        out.add(v)                                                  # Hamming weight 1..3
        out.add(full ^ v)                                           # ... and its complement
    return sorted(x for x in out if x > 0)
