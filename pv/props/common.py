"""Small helpers shared by the property drivers."""
from __future__ import annotations

import hashlib

HASHES = {
    "sha256": hashlib.sha256, "sha512": hashlib.sha512, "sha384": hashlib.sha384, "sha224": hashlib.sha224,
    "sha1": hashlib.sha1, "md5": hashlib.md5, "sha3_256": hashlib.sha3_256, "sha3_512": hashlib.sha3_512,
    "blake2b": hashlib.blake2b, "blake2s": hashlib.blake2s,
}


def call(fn, *a, **k):
    try:
        return ("ok", fn(*a, **k))
    except RecursionError as e:
        return ("exc", e)
    except Exception as e:
        return ("exc", e)


def msg_pool(rng, big=False):
    """Messages around SHA-256 padding/block boundaries, binary, multi-KiB."""
    out = [b"", b"\x00", b"a", b"\xff", b"abc", bytes(range(256))]
    for n in (31, 32, 33, 47, 48, 55, 56, 63, 64, 65, 71, 72, 79, 80, 119, 120, 127, 128, 129, 200, 255, 256, 257):
        out.append(rng.randbytes(n))
    out.append(rng.randbytes(1024))
    out.append(rng.randbytes(4096))
    if big:
        out.append(rng.randbytes(65536))
    return out


def scalar_pool(r, rng, per_bitlen=1):
    """Boundary and per-bit-length scalars in [1, r-1]."""
    out = [1, 2, 3, r - 2, r - 1, (r - 1) // 2, (r + 1) // 2]
    for k in range(1, r.bit_length() + 1):
        for v in ((1 << (k - 1)), (1 << k) - 1)[:per_bitlen] if per_bitlen == 1 else ((1 << (k - 1)), (1 << k) - 1):
            if 1 <= v < r:
                out.append(v)
    return out
