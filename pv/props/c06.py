"""C06 — ECDSA: sign-then-recover returns the signer's key; signatures valid, low-s, deterministic."""
from __future__ import annotations

from ..model import secp as MS
from ..monitors import secp as mon
from ..monitors.install import import_all
from .common import call

SELFTESTS = ["secp", "scalar_mul"]
DECIDING = ["B-ecdsa.sign", "B-ecdsa.recover", "B-ecdsa.other-v", "M-secp.nonce"]
RULE = ("cases = (private key, message hash) pairs driven through ecdsa_raw_sign and ecdsa_raw_recover on the real module; the returned "
        "(v, r, s) must equal pv.model.secp.sign exactly (own HMAC-DRBG nonce on an HMAC written on hashlib, affine arithmetic, low-s rule), "
        "satisfy the ECDSA verification equation in the model (and in OpenSSL for 32-byte hashes), recover must return d*G and the other v "
        "must raise or return another point; deterministic_generate_k is additionally observed by a wrapped monitor; "
        "distinct = distinct (key, hash); non-trivial = anything but the suite's single key/hash pair"
        " Key/hash pairs whose RFC 6979 nonce has >= 20 zero bits at either end, found by running the model's HMAC-DRBG over 2^26 (quick) / 2^28 (thorough) candidates, are signed too.")
ASSUMPTIONS = ["'RFC 6979 nonce' is read as HMAC-DRBG over priv||hash bytes, first candidate (identical to RFC 6979 for 32-byte hashes < N; anchored by the published secp256k1 key=1 'Satoshi Nakamoto' vector)"]
P, N = MS.P, MS.N
SUITE_KEY = bytes.fromhex("792eca682b890b31356247f2b04662bff448b6bb19ea1c8ab48da222c894ef9b")


def shards(tier):
    return 16


def required_classes(tier):
    return ["flip=0,Ry_odd=0", "flip=0,Ry_odd=1", "flip=1,Ry_odd=0", "flip=1,Ry_odd=1", "hash:len!=32", "hash:boundary", "key:boundary", "determinism", "bytes-variants", "nonce:structured"]


def _nonce(dkey, h):
    import hmac
    dig = hmac.digest
    K0, V0 = b"\x00" * 32, b"\x01" * 32
    k1 = dig(K0, V0 + b"\x00" + dkey + h, "sha256")
    v1 = dig(k1, V0, "sha256")
    k2 = dig(k1, v1 + b"\x01" + dkey + h, "sha256")
    v2 = dig(k2, v1, "sha256")
    return dig(k2, v2, "sha256")


def one(rec, s, d, h, cec=None, tag=""):
    priv = d.to_bytes(32, "big")
    case = {"fn": "sign+recover", "d": d, "hash": h}
    st, sig = call(s.ecdsa_raw_sign, h, priv)
    ev, er, es, info = MS.sign(h, priv)
    cls = "flip=%d,Ry_odd=%d" % (int(info["flipped"]), info["ry_odd"])
    rec.case(cls, ("c06", d, h), nontrivial=priv != SUITE_KEY, sample={"d": d, "hash": h, "sig": sig if st == "ok" else repr(sig)})
    if tag:
        rec.case(tag, None, nontrivial=False)
    if st != "ok":
        rec.check("B-ecdsa.sign", False, cls, "ecdsa_raw_sign raised %r" % (sig,), case=case, facts={"fn": "sign", "kind": "raise"})
        return
    v, r, sv = sig
    z = int.from_bytes(h, "big")
    Q = MS.mul_g(d)
    rec.check("B-ecdsa.sign", v in (27, 28) and 1 <= r < N and 1 <= sv <= N // 2, cls, "signature components out of range", case=case,
              facts={"fn": "sign", "kind": "range"}, observed=sig)
    rec.check("B-ecdsa.sign", MS.verify(z, r, sv, Q), cls, "signature does not satisfy the ECDSA verification equation", case=case,
              facts={"fn": "sign", "kind": "verify"}, observed=sig)
    rec.check("B-ecdsa.sign", (v, r, sv) == (ev, er, es), cls, "signature differs from the deterministic (RFC 6979, low-s) value", case=case,
              facts={"fn": "sign", "kind": "value"}, expected=(ev, er, es), observed=sig)
    if cec is not None and len(h) == 32:
        from cryptography.exceptions import InvalidSignature
        from cryptography.hazmat.primitives import hashes
        from cryptography.hazmat.primitives.asymmetric import ec as _ec, utils
        pub = _ec.EllipticCurvePublicNumbers(Q[0][0], Q[1][0], _ec.SECP256K1()).public_key()
        try:
            pub.verify(utils.encode_dss_signature(r, sv), h, _ec.ECDSA(utils.Prehashed(hashes.SHA256())))
            good = True
        except InvalidSignature:
            good = False
        rec.check("B-ecdsa.openssl", good, cls, "OpenSSL rejects the signature", case=case, facts={"fn": "sign", "kind": "openssl"})
    # recover
    st, pub = call(s.ecdsa_raw_recover, h, (v, r, sv))
    rec.check("B-ecdsa.recover", st == "ok" and tuple(pub) == MS.from_pt(Q), cls, "ecdsa_raw_recover does not return privtopub(d)", case=case,
              facts={"fn": "recover", "kind": "value"}, expected=MS.from_pt(Q), observed=pub if st == "ok" else repr(pub))
    st, pub2 = call(s.ecdsa_raw_recover, h, (55 - v, r, sv))
    ok = (st == "exc" and isinstance(pub2, ValueError)) or (st == "ok" and tuple(pub2) != MS.from_pt(Q))
    rec.check("B-ecdsa.other-v", ok, cls, "the other v value also recovers the signer's key (or raises a non-ValueError)", case=case,
              facts={"fn": "recover", "kind": "other-v"}, observed=pub2 if st == "ok" else repr(pub2))
    return sig


def run(rec):
    import_all()
    import py_ecc.secp256k1.secp256k1 as s
    mon.EVERY.update({"jdouble": 97, "jadd": 89, "inv": 7, "fromjac": 3})
    mon.install()
    try:
        from cryptography.hazmat.primitives.asymmetric import ec as cec
    except ImportError:
        cec = None
        rec.notes["openssl_oracle"] = "cryptography not importable: skipped"
    rng = rec.rng
    quick = rec.tier == "quick"
    keys_b = [1, 2, 3, N - 2, N - 1, (N - 1) // 2, (N + 1) // 2] + [1 << k for k in (1, 7, 8, 63, 64, 127, 128, 255)]
    hashes_b = [bytes(32), b"\xff" * 32, (N - 1).to_bytes(32, "big"), N.to_bytes(32, "big"), (N + 1).to_bytes(32, "big"),
                (1).to_bytes(32, "big"), (P - 1).to_bytes(32, "big"), (1 << 255).to_bytes(32, "big")]
    # keys and hashes tied to the curve's endomorphism eigenvalues (cube roots of unity mod N) and to small integers
    from . import curvegen as CG
    lam_sc = [k % N for k in CG.endo_scalars(N) if 0 < k % N < N]
    keys_b += lam_sc[:14] + list(range(4, 20))
    hashes_b += [(k % N).to_bytes(32, "big") for k in lam_sc[:6]] + [((N - k) % N).to_bytes(32, "big") for k in lam_sc[:6]]
    from .common import BytesSub, bit_patterns
    for d in bit_patterns(256, rng, 3 if quick else 12):
        if 0 < d < N:
            keys_b.append(d)
    hashes_b += [v.to_bytes(32, "big") for v in bit_patterns(256, rng, 2 if quick else 8)[:14]]
    i = 0
    cases = []
    for d in lam_sc:
        cases.append((d, rng.randbytes(32), "key:endomorphism-eigenvalue"))
    for hb in hashes_b[-12:]:
        cases.append((rng.randrange(1, N), hb, "hash:endomorphism-eigenvalue"))
    for d in keys_b:
        for h in hashes_b:
            cases.append((d, h, "key:boundary"))
    for d in keys_b[:4] + [rng.randrange(1, N) for _ in range(4)]:
        for L in list(range(0, 65)):
            if L == 32:
                continue
            cases.append((d, rng.randbytes(L), "hash:len!=32"))
    for h in hashes_b:
        for _ in range(6):
            cases.append((rng.randrange(1, N), h, "hash:boundary"))
    if not quick:
        cases = cases + [(rng.randrange(1, N), rng.randbytes(L), "hash:len!=32") for L in range(0, 65) for _ in range(8) if L != 32]
    for d, h, tag in cases:
        i += 1
        if rec.mine(i):
            one(rec, s, d, h, cec, tag)
    # the same values as other legal byte-string types
    for rep in range(3 if quick else 30):
        i += 1
        if not rec.mine(i):
            continue
        d, h = rng.randrange(1, N), rng.randbytes(32)
        rec.case("bytes-variants", None, nontrivial=False)
        base = call(s.ecdsa_raw_sign, h, d.to_bytes(32, "big"))
        for hv, kv in ((BytesSub(h), BytesSub(d.to_bytes(32, "big"))), (bytearray(h), bytearray(d.to_bytes(32, "big")))):
            st, sg = call(s.ecdsa_raw_sign, hv, kv)
            rec.check("B-ecdsa.sign", (st, sg if st == "ok" else None) == (base[0], base[1] if base[0] == "ok" else None) or (st == "exc" and base[0] == "exc"), "bytes-variants",
                      "ecdsa_raw_sign depends on the exact type of its byte-string arguments (%s)" % type(hv).__name__, case={"fn": "sign+recover", "d": d, "hash": h}, facts={"fn": "sign", "kind": "type-dependence"})
            if st == "ok":
                st2, q = call(s.ecdsa_raw_recover, hv, sg)
                rec.check("B-ecdsa.recover", st2 == "ok" and tuple(q) == MS.from_pt(MS.mul_g(d)), "bytes-variants", "recover with a %s hash differs" % type(hv).__name__,
                          case={"fn": "sign+recover", "d": d, "hash": h}, facts={"fn": "recover", "kind": "type-dependence"})
    # search (in the MODEL, which defines the nonce) for key/hash pairs whose nonce k has many leading or trailing zero bits or
    # exceeds N-2^200: internal values of the specified algorithm with a structured bit pattern
    import hashlib as _hl
    import hmac as _hm
    trials = (1 << 22) if quick else (1 << 24)
    dkey = rng.randrange(1, N).to_bytes(32, "big")
    best = []
    K0, V0 = b"\x00" * 32, b"\x01" * 32
    base_ctr = rng.getrandbits(60)
    dig = _hm.digest
    for t in range(trials):
        h = (base_ctr + t).to_bytes(32, "big")
        k1 = dig(K0, V0 + b"\x00" + dkey + h, "sha256")
        v1 = dig(k1, V0, "sha256")
        k2 = dig(k1, v1 + b"\x01" + dkey + h, "sha256")
        v2 = dig(k2, v1, "sha256")
        kk = dig(k2, v2, "sha256")
        if kk[0] == 0 and kk[1] == 0 and kk[2] < 16 or (kk[31] == 0 and kk[30] == 0 and kk[29] & 15 == 0):
            best.append(h)
    rec.event("nonce-search:trials", trials)
    rec.event("nonce-search:candidates(>=20 zero bits at an end)", len(best))
    best.sort(key=lambda h_: -max(256 - int.from_bytes(_nonce(dkey, h_), 'big').bit_length(), (int.from_bytes(_nonce(dkey, h_), 'big') & -int.from_bytes(_nonce(dkey, h_), 'big')).bit_length() - 1))
    rec.event("nonce-search:candidates(>=24 zero bits at an end)", sum(1 for h_ in best if _nonce(dkey, h_)[:3] == b'\x00\x00\x00' or _nonce(dkey, h_)[-3:] == b'\x00\x00\x00'))
    for h in best[:40]:
        rec.case("nonce:structured", ("nonce", dkey, h), sample={"fn": "ecdsa_raw_sign", "what": "RFC 6979 nonce with >= 20 leading or trailing zero bits (found by searching with the model)"})
        one(rec, s, int.from_bytes(dkey, "big"), h, None, "nonce:structured")
    rec.case("nonce:structured", None, nontrivial=False)
    done = []
    for _ in range(2600 if quick else 250000):
        i += 1
        d, h = rng.randrange(1, N), rng.randbytes(32)
        if rec.mine(i):
            sig = one(rec, s, d, h, cec if i % 5 == 0 else None)
            if len(done) < 25:
                done.append((d, h, sig))
    # determinism: repeat after many unrelated calls
    for d, h, sig in done:
        st, again = call(s.ecdsa_raw_sign, h, d.to_bytes(32, "big"))
        rec.case("determinism", None, nontrivial=False)
        rec.check("B-ecdsa.sign", st == "ok" and again == sig, "determinism", "ecdsa_raw_sign is not deterministic",
                  case={"fn": "sign+recover", "d": d, "hash": h}, facts={"fn": "sign", "kind": "determinism"})


def replay(rec, case):
    import_all()
    import py_ecc.secp256k1.secp256k1 as s
    mon.install()
    if case.get("fn") == "sign+recover":
        one(rec, s, case["d"], case["hash"])
    elif case.get("fn") == "deterministic_generate_k":
        call(s.deterministic_generate_k, case["msghash"], case["priv"])
