"""C03 — aggregation is the group sum and aggregate verification accepts only it."""
from __future__ import annotations

import itertools

from ..model import bls as MB
from ..model import params, zcash as Z
from ..monitors import bls as bmon
from ..monitors.install import import_all
from . import curvegen as CG
from .common import call

SELFTESTS = ["fields", "params", "zcash", "h2c", "bls"]
DECIDING = ["M-bls.aggregate", "M-bls.aggverify", "M-bls.fastaggverify", "B-c03.order"]
SCOPE = ["M-bls.aggregate", "M-bls.aggverify", "M-bls.fastaggverify", "B-c03"]
RULE = ("cases = Aggregate / AggregateVerify / FastAggregateVerify calls on the real ciphersuite classes for signer sets whose secret keys the "
        "harness knows, judged by monitors wrapped around the methods: Aggregate == ZCash encoding of the model sum of the decoded signatures "
        "(and ValidationError for [] or wrongly sized / non-bytes entries); verification == preconditions (n >= 1, as many keys as messages, "
        "every key valid, distinct messages in the basic suite, decodable in-subgroup signature, non-identity aggregate key for "
        "FastAggregateVerify) AND decode(sig) == sum sk_i * H(m_i') recomputed in pv.model for whatever the perturbation produced. Workload: "
        "n = 1..6 (thorough ..32) signers, repeated keys, repeated messages, keys sk and r-sk together, permutations and random bracketings of "
        "Aggregate, and every single-element perturbation: drop / duplicate / substitute a signer, key or message, swap two messages, aggregate "
        "over a subset, negated aggregate, aggregate + twist torsion point, bit flip, length mismatches, ([], [], sig), ([], [], infinity), "
        "invalid key at first / middle / last position. distinct = distinct call; non-trivial = n >= 2 signers or a perturbed / malformed input"
        " Signer sets of 257 (quick) / 257, 300, 513 (thorough) for AggregateVerify (honest, duplicate message, missing key), FastAggregateVerify and Aggregate.")
ASSUMPTIONS = ["FastAggregateVerify with individually valid keys that sum to the identity is expected False (IETF CoreVerify -> KeyValidate)",
               "Aggregate on 96-byte entries that do not decode: any raised exception is accepted, returned bytes are not"]
R = params.BLS_R
E2 = params.BLS_E2
PERTS = ["prefix-games", "sig-length", "extra-identity-key", "key-plus-torsion", "honest", "drop-signer", "dup-signer", "subst-key", "subst-message", "swap-messages", "subset-aggregate", "negated", "plus-torsion", "bitflip",
         "more-keys", "more-messages", "empty", "empty-infinity", "bad-key", "identity-key", "repeated-message", "repeated-key"]


def shards(tier):
    return 16


def required_classes(tier):
    out = ["av:" + p for p in PERTS if p not in ("identity-key",)] + ["fav:" + p for p in ("sig-length", "key-plus-torsion", "honest", "drop-signer", "dup-signer", "subst-key", "empty", "empty-infinity", "bad-key", "sk-and-r-sk", "negated", "other-message")]
    out += ["av:same-message", "av:large-set", "fav:large-set", "agg:large-set", "typed-variants", "mutable-list-reused", "msg:starts-with-own-pk", "agg:multiplicity", "agg:sum", "agg:permutation", "agg:bracketing", "agg:refuse", "agg:undecodable", "suite:basic", "suite:aug", "suite:pop", "n>=2"]
    return out


def run(rec):
    import_all()
    cs = bmon.install(pair_arg=False)
    suites = {"basic": cs.G2Basic, "aug": cs.G2MessageAugmentation, "pop": cs.G2ProofOfPossession}
    names = list(suites)
    rng = rec.rng
    quick = rec.tier == "quick"
    order2 = params.BLS_H2 * R
    T13 = CG.torsion_point(E2, order2, 13, rng)
    order1 = params.BLS_H1 * R
    T_G1 = [CG.torsion_point(params.BLS_E1, order1, q, rng) for q in (3, 11)] + [params.BLS_E1.mul(params.BLS_E1.rand_point(rng), R)]
    inf_sig = Z.enc_g2(None)
    if rec.shard in (0, 1, 2) or (rec.shard in (3, 4) and not quick):
        large_sets(rec, suites, rec.shard, quick)                     # thorough: the other two suites on their own shards
    for c_ in ("av:large-set", "fav:large-set", "agg:large-set"):
        rec.case(c_, None, nontrivial=False)
    rounds = 1 if quick else 6
    for rd in range(rounds):
        suite = names[(rec.shard + rd) % 3]
        S = suites[suite]
        nmax = 6 if quick else 32
        n = 1 + (rec.shard // 3 + rd * 5) % nmax if quick else rng.choice([1, 2, 3, 4, 5, 6, 8, 12, 16, 32][: 6 + rd])
        rec.case("suite:" + suite, None, nontrivial=False)
        if n >= 2:
            rec.case("n>=2", None, nontrivial=False)
        sks = [rng.choice([rng.randrange(1, R), rng.randrange(1, 1 << 64), R - 1 - rng.randrange(0, 5)]) for _ in range(n)]
        msgs = [rng.randbytes(rng.choice([0, 1, 8, 32, 33, 64, 100])) + bytes([j]) for j in range(n)]
        pks = [bmon.register_key(sk) for sk in sks]
        # messages that begin with (or are) the signer's own public key: the augmentation prefix must still be added
        if (rec.shard + rd) % 2 == 0:
            msgs[0] = pks[0] + msgs[0]
            rec.case("msg:starts-with-own-pk", None, nontrivial=False)
            if n >= 2:
                msgs[-1] = pks[-1]
        else:
            pass
        sigs = [bmon.m_sign(suite, sk, m) for sk, m in zip(sks, msgs)]
        agg = MB.aggregate(sigs)

        # ------------------------------------------------ Aggregate: sum, order, grouping
        rec.case("agg:sum", ("agg", tuple(sigs)), nontrivial=n >= 2, sample={"fn": "Aggregate", "suite": suite, "n": n})
        outs = [call(S.Aggregate, list(sigs))]
        perms = list(itertools.permutations(range(n))) if n <= 3 else [rng.sample(range(n), n) for _ in range(4)]
        for pm in perms[:6]:
            rec.case("agg:permutation", ("agg", tuple(sigs[j] for j in pm)), nontrivial=n >= 2)
            outs.append(call(S.Aggregate, [sigs[j] for j in pm]))
        if n >= 2:
            for _ in range(2):
                cut = rng.randrange(1, n)
                a = call(S.Aggregate, sigs[:cut])
                b = call(S.Aggregate, sigs[cut:])
                if a[0] == "ok" and b[0] == "ok":
                    rec.case("agg:bracketing", ("aggb", tuple(sigs), cut))
                    outs.append(call(S.Aggregate, [a[1], b[1]]))
        else:
            rec.case("agg:bracketing", None, nontrivial=False)
        # repeated and cancelling entries: the sum counts multiplicities (s + s = 2s, s + (-s) = identity)
        S0 = Z.dec_g2(sigs[0])
        e1, e2 = Z.enc_g2(CG.endo(params.BLS_FP2, S0, 1)), Z.enc_g2(CG.endo(params.BLS_FP2, S0, 2))
        # distinct signatures that share a coordinate: (beta*x, y) and (beta^2*x, y) lie in the subgroup too, and S + phi(S) + phi^2(S) = O
        for rep_list in ([sigs[0], e1], [e1, sigs[0]], [sigs[0], e2], [sigs[0], e1, e2], [e1, e2] + sigs,
                         [sigs[0], sigs[0]], [sigs[0]] * 3, sigs + [sigs[j_] for j_ in range(n)], sigs + [sigs[-1]],
                         [sigs[0], Z.enc_g2(E2.neg(Z.dec_g2(sigs[0])))], [inf_sig, sigs[0], inf_sig]):
            rec.case("agg:multiplicity", ("aggm", tuple(rep_list)), sample={"fn": "Aggregate", "suite": suite, "entries": len(rep_list), "distinct": len(set(rep_list))})
            call(S.Aggregate, list(rep_list))
        # tuples instead of lists, a bytes subclass instead of bytes
        from .common import BytesSub
        rec.case("typed-variants", None, nontrivial=False)
        call(S.Aggregate, tuple(sigs))
        call(S.Aggregate, [BytesSub(x) for x in sigs])
        call(S.AggregateVerify, tuple(pks), tuple(msgs), agg)
        call(S.AggregateVerify, [BytesSub(x) for x in pks], [BytesSub(x) for x in msgs], BytesSub(agg))
        # the same list OBJECTS passed again after they were changed in place
        lst = list(sigs)
        kl, ml = list(pks), list(msgs)
        rec.case("mutable-list-reused", ("mutlist", tuple(sigs)), sample={"fn": "Aggregate / AggregateVerify", "what": "list argument changed in place between consecutive calls"})
        call(S.Aggregate, lst)
        call(S.AggregateVerify, kl, ml, agg)
        lst.append(sigs[0]); lst[0] = e1
        call(S.Aggregate, lst)
        if n >= 2:
            kl[0], kl[1] = kl[1], kl[0]
            call(S.AggregateVerify, kl, ml, agg)
            ml[0], ml[1] = ml[1], ml[0]
            call(S.AggregateVerify, kl, ml, agg)
        kl.pop(); ml.pop()
        call(S.AggregateVerify, kl, ml, agg)
        vals = {o[1] if o[0] == "ok" else repr(o[1]) for o in outs}
        rec.check("B-c03.order", len(vals) == 1, "agg", "Aggregate depends on order / grouping of its inputs", case={"fn": "Aggregate", "sigs": sigs, "suite": suite},
                  facts={"fn": "Aggregate", "kind": "order-dependence"})
        # refusals
        for bad in ([], [b""], [sigs[0][:95]], [sigs[0] + b"\x00"], [sigs[0], "x" * 96], [bytearray(sigs[0])], [sigs[0], b"\x00" * 95]):
            rec.case("agg:refuse", ("aggbad", repr(bad)[:80]))
            call(S.Aggregate, bad)
        und = bytearray(sigs[0]); und[0] &= 0x7F
        rec.case("agg:undecodable", ("aggund", bytes(und)))
        call(S.Aggregate, [sigs[0], bytes(und)])
        call(S.Aggregate, [b"\xff" * 96])

        # ------------------------------------------------ AggregateVerify and its perturbations
        def av(cls, P, M, sg, nontrivial=True):
            rec.case("av:" + cls, ("av", suite, tuple(P), tuple(M), sg), nontrivial=nontrivial,
                     sample={"fn": "AggregateVerify", "suite": suite, "perturbation": cls, "n_keys": len(P), "n_msgs": len(M)})
            return call(S.AggregateVerify, list(P), list(M), sg)

        av("honest", pks, msgs, agg, nontrivial=n >= 2)
        sk_x = rng.randrange(1, R)
        pk_x = bmon.register_key(sk_x)
        j = rng.randrange(n)
        plan = [p for p in PERTS if p != "honest"]
        if quick and n >= 4:
            plan = [p for k, p in enumerate(plan) if (k + rec.shard) % 2 == 0 or p in ("empty", "empty-infinity")]
        for pert in plan:
            if pert == "drop-signer":
                av(pert, pks[:j] + pks[j + 1:], msgs[:j] + msgs[j + 1:], agg)
            elif pert == "dup-signer":
                av(pert, pks + [pks[j]], msgs + [msgs[j]], agg)
                # the library's own Aggregate over the list with the duplicate (what a caller would do)
                la = call(S.Aggregate, sigs + [sigs[j]])
                if la[0] == "ok" and isinstance(la[1], bytes):
                    av(pert, pks + [pks[j]], msgs + [msgs[j]], la[1])
                # ... and the sum rule: with the duplicate's signature added it verifies again (not in basic: repeated message)
                av(pert, pks + [pks[j]], msgs + [msgs[j]], MB.aggregate(sigs + [sigs[j]]))
            elif pert == "subst-key":
                P2 = list(pks); P2[j] = pk_x
                av(pert, P2, msgs, agg)
            elif pert == "subst-message":
                M2 = list(msgs); M2[j] = msgs[j] + b"!"
                av(pert, pks, M2, agg)
            elif pert == "swap-messages":
                if n >= 2:
                    M2 = list(msgs); M2[0], M2[1] = M2[1], M2[0]
                    av(pert, pks, M2, agg)
                else:
                    rec.case("av:" + pert, None, nontrivial=False)
            elif pert == "subset-aggregate":
                if n >= 2:
                    av(pert, pks, msgs, MB.aggregate(sigs[:-1]))
                else:
                    rec.case("av:" + pert, None, nontrivial=False)
            elif pert == "negated":
                av(pert, pks, msgs, Z.enc_g2(E2.neg(Z.dec_g2(agg))))
            elif pert == "plus-torsion":
                av(pert, pks, msgs, Z.enc_g2(E2.add(Z.dec_g2(agg), T13)))
            elif pert == "bitflip":
                z = int.from_bytes(agg, "big") ^ (1 << rng.randrange(0, 381))
                av(pert, pks, msgs, z.to_bytes(96, "big"))
                av(pert, pks, msgs, (int.from_bytes(agg, "big") ^ (1 << 765)).to_bytes(96, "big"))
            elif pert == "sig-length":
                av(pert, pks, msgs, agg[:95])
                av(pert, pks, msgs, agg + b"\x00")
                av(pert, pks, msgs, b"")
            elif pert == "prefix-games":
                # the signer's key prepended to / stripped from a message while the aggregate stays: must not verify
                M2 = list(msgs); M2[j] = pks[j] + msgs[j]
                av(pert, pks, M2, agg)
                if msgs[0][:48] == pks[0]:
                    M3 = list(msgs); M3[0] = msgs[0][48:]
                    av(pert, pks, M3, agg)
            elif pert == "more-keys":
                av(pert, pks + [pk_x], msgs, agg)
            elif pert == "more-messages":
                av(pert, pks, msgs + [b"extra"], agg)
                av(pert, pks[:-1], msgs, agg)
            elif pert == "empty":
                av(pert, [], [], agg)
            elif pert == "empty-infinity":
                av(pert, [], [], inf_sig)
            elif pert == "bad-key":
                for pos in sorted({0, n // 2, n - 1}):
                    for bad in (Z.enc_g1(None), b"\x00" * 48, Z.enc_g1(params.BLS_E1.rand_point(rng))):
                        P2 = list(pks); P2[pos] = bad
                        av(pert, P2, msgs, agg)
            elif pert == "extra-identity-key":
                # an honest aggregate plus an identity key paired with a message nobody signed: e(H(m), O) = 1 would hide it
                for pos in sorted({0, n}):
                    av(pert, pks[:pos] + [Z.enc_g1(None)] + pks[pos:], msgs[:pos] + [b"nobody signed this"] + msgs[pos:], agg)
                av(pert, [Z.enc_g1(None)], [b"m"], inf_sig)
            elif pert == "key-plus-torsion":
                # signer j's key replaced by key + T, T of small order on E(Fp): the pairing cannot tell (e(H, T) = 1), only KeyValidate can
                T1 = T_G1[(rec.shard + j) % len(T_G1)]
                P2 = list(pks); P2[j] = Z.enc_g1(params.BLS_E1.add(Z.dec_g1(pks[j]), T1))
                av(pert, P2, msgs, agg)
            elif pert == "repeated-message":
                # two signers on the same message: basic must refuse, aug/pop follow the sum rule
                M2 = list(msgs) + [msgs[0]]
                P2 = pks + [pk_x]
                sg = MB.aggregate(sigs + [bmon.m_sign(suite, sk_x, msgs[0])])
                av(pert, P2, M2, sg)
            elif pert == "repeated-key":
                M2 = list(msgs) + [b"second message of signer 0"]
                P2 = pks + [pks[0]]
                sg = MB.aggregate(sigs + [bmon.m_sign(suite, sks[0], M2[-1])])
                av(pert, P2, M2, sg)

        # ------------------------------------------------ FastAggregateVerify (proof-of-possession suite)
        Pp = suites["pop"]
        msg = rng.randbytes(rng.choice([0, 32, 65]))
        fs = [bmon.m_sign("pop", sk, msg) for sk in sks]
        fagg = MB.aggregate(fs)

        def fav(cls, P, m, sg, nontrivial=True):
            rec.case("fav:" + cls, ("fav", tuple(P), m, sg), nontrivial=nontrivial, sample={"fn": "FastAggregateVerify", "perturbation": cls, "n_keys": len(P)})
            return call(Pp.FastAggregateVerify, list(P), m, sg)

        fav("honest", pks, msg, fagg, nontrivial=n >= 2)
        fav("drop-signer", pks[:-1], msg, fagg)
        fav("dup-signer", pks + [pks[0]], msg, fagg)
        fav("dup-signer", pks + [pks[0]], msg, MB.aggregate(fs + [fs[0]]))
        la = call(Pp.Aggregate, fs + [fs[0]])
        if la[0] == "ok" and isinstance(la[1], bytes):
            fav("dup-signer", pks + [pks[0]], msg, la[1])
        P2 = list(pks); P2[j] = pk_x
        fav("subst-key", P2, msg, fagg)
        fav("empty", [], msg, fagg)
        fav("empty-infinity", [], msg, inf_sig)
        fav("negated", pks, msg, Z.enc_g2(E2.neg(Z.dec_g2(fagg))))
        fav("sig-length", pks, msg, fagg[:95])
        fav("sig-length", pks, msg, fagg + fagg[:1])
        fav("other-message", pks, msg + b"x", fagg)
        for bad in (Z.enc_g1(None), Z.enc_g1(params.BLS_E1.rand_point(rng))):
            P2 = list(pks); P2[rng.randrange(n)] = bad
            fav("bad-key", P2, msg, fagg)
        # keys sk and r - sk together: the aggregate key is the identity
        sk_neg = R - sks[0]
        pk_neg = bmon.register_key(sk_neg)
        # key + small-order point with the honest aggregate: only the per-key subgroup check can refuse it
        P2 = list(pks); P2[j] = Z.enc_g1(params.BLS_E1.add(Z.dec_g1(pks[j]), T_G1[rd % len(T_G1)]))
        fav("key-plus-torsion", P2, msg, fagg)
        fav("sk-and-r-sk", [pks[0], pk_neg], msg, inf_sig)
        fav("sk-and-r-sk", [pks[0], pk_neg], msg, MB.aggregate([fs[0], bmon.m_sign("pop", sk_neg, msg)]))
        if n >= 2:
            fav("sk-and-r-sk", pks + [pk_neg], msg, MB.aggregate(fs[1:]))       # identity-cancelling pair inside a larger honest set: sum rule says True
        # ------------------------------------------------ AggregateVerify when ALL messages are the same byte string (legal outside the
        # basic suite): the general rule still applies - as many keys as messages, signature = sum - whatever shortcut an
        # implementation takes for this shape
        for sname in sorted({suite, "pop"}):
            Sx = suites[sname]
            ss = fs if sname == "pop" else [bmon.m_sign(sname, sk, msg) for sk in sks]
            sagg = MB.aggregate(ss)

            def avs(P, M_, sg, what):
                rec.case("av:same-message", ("avs", sname, tuple(P), tuple(M_), sg), sample={"fn": "AggregateVerify", "suite": sname, "perturbation": "all messages equal; " + what, "n_keys": len(P), "n_msgs": len(M_)})
                return call(Sx.AggregateVerify, list(P), list(M_), sg)
            avs(pks, [msg] * n, sagg, "honest")
            avs(pks, [msg] * (n + 1), sagg, "one message too many")
            avs(pks, [msg] * (n - 1), sagg, "one message too few")
            avs(pks + [pk_x], [msg] * n, sagg, "one key too many")
            avs(pks + [pk_x], [msg] * n, MB.aggregate(ss + [bmon.m_sign(sname, sk_x, msg)]), "one key too many, signature over all listed keys")
            if n >= 2:
                avs(pks, [msg], sagg, "a single message for all keys")
                avs(pks[:-1], [msg] * n, MB.aggregate(ss[:-1]), "one key too few, signature over the listed keys")
            avs([pks[0], pk_neg], [msg, msg], inf_sig, "keys sk and r - sk")
            avs(pks + [pk_neg], [msg] * (n + 1), MB.aggregate(ss[1:]) if n >= 2 else inf_sig, "keys sk and r - sk inside a larger set")


def large_sets(rec, suites, part, quick):
    """Signer sets larger than the sizes at which an interpreter or an encoding changes behaviour (257 > CPython's cached small
    ints and one byte; 300): honest aggregate must verify, one duplicate message (basic) or one foreign signature must not."""
    rng = rec.rng
    names = list(suites)
    sizes = [257] if quick else ([257, 300, 513] if part in (0, 1, 2) else [257])
    base_sks = [rng.randrange(1, R) for _ in range(5)]
    for n in sizes:
        if part in (0, 3, 4):
            for suite in ({0: ["basic"], 3: ["aug"], 4: ["pop"]}[part]):
                S = suites[suite]
                sks = [base_sks[j % 5] for j in range(n)]
                pks = [bmon.register_key(sk) for sk in sks]
                msgs = [j.to_bytes(2, "big") + rng.randbytes(6) for j in range(n)]
                sigs = [bmon.m_sign(suite, sk, m) for sk, m in zip(sks, msgs)]
                agg = MB.aggregate(sigs)
                rec.case("av:large-set", ("avL", suite, n, agg), sample={"fn": "AggregateVerify", "suite": suite, "n_keys": n, "n_msgs": n, "perturbation": "honest"})
                call(S.AggregateVerify, pks, msgs, agg)
                m2 = list(msgs); m2[n - 1] = msgs[0]
                rec.case("av:large-set", ("avL", suite, n, "dup-message"), sample={"fn": "AggregateVerify", "suite": suite, "n_keys": n, "perturbation": "last message repeats the first"})
                call(S.AggregateVerify, pks, m2, agg)
                rec.case("av:large-set", ("avL", suite, n, "short"), sample={"fn": "AggregateVerify", "suite": suite, "n_keys": n - 1, "n_msgs": n})
                call(S.AggregateVerify, pks[:-1], msgs, agg)
        elif part == 1:
            S = suites["pop"]
            sks = [rng.randrange(1, R) for _ in range(n)]
            pks = [bmon.register_key(sk) for sk in sks]
            msg = rng.randbytes(32)
            Hm = bmon.m_sign_point("pop", 1, msg)
            fagg = Z.enc_g2(E2.mul(Hm, sum(sks) % R))
            rec.case("fav:large-set", ("favL", n, fagg), sample={"fn": "FastAggregateVerify", "n_keys": n, "perturbation": "honest"})
            call(S.FastAggregateVerify, pks, msg, fagg)
            rec.case("fav:large-set", ("favL", n, "drop"), sample={"fn": "FastAggregateVerify", "n_keys": n - 1, "perturbation": "drop-signer"})
            call(S.FastAggregateVerify, pks[:-1], msg, fagg)
        else:
            S = suites[names[n % 3]]
            sigs = []
            Pt = E2.mul(params.bls_generators()[1], rng.randrange(1, R))
            step = E2.mul(params.bls_generators()[1], rng.randrange(1, R))
            for j in range(n):
                Pt = E2.add(Pt, step)
                sigs.append(Z.enc_g2(Pt))
            rec.case("agg:large-set", ("aggL", n, tuple(sigs[:3])), sample={"fn": "Aggregate", "entries": n})
            call(S.Aggregate, sigs)
            rec.case("agg:large-set", ("aggL", n, "with repeats"), sample={"fn": "Aggregate", "entries": n + 2, "distinct": n})
            call(S.Aggregate, sigs + sigs[:2])


def replay(rec, case):
    import_all()
    cs = bmon.install(pair_arg=False)
    suites = {"basic": cs.G2Basic, "aug": cs.G2MessageAugmentation, "pop": cs.G2ProofOfPossession}
    for sk in case.get("sks") or []:
        if sk is not None:
            bmon.register_key(sk)
    fn = case["fn"]
    S = suites.get(case.get("suite", "pop"), cs.G2ProofOfPossession)
    if fn == "Aggregate":
        call(S.Aggregate, case["sigs"])
    elif fn == "AggregateVerify":
        call(S.AggregateVerify, case["pks"], case["msgs"], case["sig"])
    elif fn == "FastAggregateVerify":
        call(suites["pop"].FastAggregateVerify, case["pks"], case["msg"], case["sig"])
