"""C08 — field classes satisfy the field axioms with canonical representatives."""
from __future__ import annotations

import itertools
import random

from ..model import params
from ..model.gf import Fld, find_irreducible, is_prime
from ..monitors import field as fmon
from ..monitors.install import import_all
from . import fieldgen as G
from .common import call

SELFTESTS = ["fields"]
DECIDING = ["M-field-op", "M-field-inv", "B-field-law"]
RULE = ("cases = field operations executed on the real classes (12 shipped classes + ad-hoc subclasses with other primes/moduli); every "
        "__add__/__sub__/__mul__/__truediv__/__neg__/__pow__/inv (and reflected forms) activation is judged by a monitor patched onto the "
        "four base classes against pv.model.gf (generic GF(p^k) arithmetic, inverse by textbook polynomial Euclid), every constructed element "
        "by the canonical-storage invariant; the driver additionally evaluates associativity/commutativity/distributivity/inverse/division/"
        "power laws and equality on library outputs; W4 enumerates small fields completely; distinct = distinct (class, op, operands); "
        "non-trivial = operands other than the suite's 2, 7, 9, 11, [1,2], [1..12]"
        " Primes just below a power of two with top-of-range coefficients (degrees 2, 12); a concurrent phase repeats products, quotients and powers of every concrete extension class in 4 threads and requires the single-threaded values.")
ASSUMPTIONS = ["element construction is from homogeneous coefficient sequences (all ints, or all FQ objects of the same field)",
               "FQ(3) == 3 + p being False is not flagged: 'integer operands act as residues' is applied to arithmetic operators only"]
SUITE_TRIVIAL = {(2,), (7,), (9,), (11,), (1, 2), tuple(range(1, 13))}


def shards(tier):
    return 16


def required_classes(tier):
    out = ["threads:field-arithmetic", "near-power-of-two-prime", "typed-variants", "soak:distinct-inverses", "derived-configurations", "hash-colliding-operands", "interleaved-configurations", "W4:GF(p)", "W4:GF(p^2)", "W4:GF(2^12)", "int-operand", "div-by-zero", "pow:>=750bit", "laws"]
    for impl in ("ref", "opt"):
        for d in (1, 2, 12):
            out.append("real:%s:deg%d" % (impl, d))
    return out


def nontriv(*vals):
    return not all(tuple(v) in SUITE_TRIVIAL for v in vals)


def law_check(rec, cls_name, what, ok, case):
    rec.check("B-field-law", ok is True, "laws", "%s: %s violated" % (cls_name, what), case=case, facts={"law": what, "cls": cls_name})


def exercise(rec, key, cls, F, rng, quick, exhaustive_pairs=False, els=None, heavy=True):
    """Run the operation catalogue on class ``cls`` (model field F)."""
    impl, label, deg = key
    name = "%s:%s:deg%d" % key
    k = F.k
    els = els if els is not None else G.elements(F, rng, 3 if quick else 8)
    objs = [(v, G.make(cls, v)) for v in els]
    cname = "real:%s:deg%d" % (impl, deg) if label in G.CURVES else None
    # unary
    for v, x in objs:
        rec.case(cname or "adhoc", (name, "unary", v), nontrivial=nontriv(v), sample={"class": cls.__name__, "op": "neg/inv/pow", "x": v})
        call(lambda: -x)
        if k > 1:
            st, xi = call(x.inv)
            if st == "ok":
                law_check(rec, name, "x * inv(x) == 1 (or 0 for x == 0)", (x * xi == cls.one()) if any(v) else (xi == cls.zero()), {"cls": name, "x": v})
        else:
            st, xi = call(lambda: 1 / x)
            if st == "ok":
                law_check(rec, name, "x * (1/x) == 1 (or 0 for x == 0)", (x * xi == cls.one()) if any(v) else (xi == cls.zero()), {"cls": name, "x": v})
        # division by zero follows inv0
        st, q = call(lambda: x / cls.zero())
        rec.case("div-by-zero", None, nontrivial=False)
        if st == "ok":
            law_check(rec, name, "x / 0 == 0 (inv0)", q == cls.zero(), {"cls": name, "x": v})
        st, q = call(lambda: x / 0)
        if st == "ok":
            law_check(rec, name, "x / int 0 == 0 (inv0)", q == cls.zero(), {"cls": name, "x": v})
        # small powers as n-fold products
        acc = cls.one()
        for n in range(0, 6):
            st, pw = call(lambda: x ** n)
            if st == "ok":
                law_check(rec, name, "x ** %d == n-fold product" % n, pw == acc, {"cls": name, "x": v, "n": n})
            acc = acc * x
    # exponents (judged by the __pow__ monitor against the model); planned by cost so that
    # every class gets at least one exponent of >= 750 bits (the depth at which recursion
    # through ** used to overflow) and the expensive classes stay within a budget
    mulcost = {("ref", 12): 1.6e-3, ("opt", 12): 2.5e-4, ("ref", 2): 6e-5, ("opt", 2): 1.5e-5}.get((impl, k), 4e-6)
    budget = (2.5 if quick else 25.0) * (1.0 if heavy else 0.3)
    exps = G.exponents(F, rng, big=True)
    plan = []
    star = min(5, len(objs) - 1)
    big_first = sorted([e for e in exps if e.bit_length() >= 750], key=lambda e: e.bit_length())
    for e in big_first[:1] + [F.p, F.q - 1] + big_first[1:] + [F.p + 1, F.p - 1]:
        plan.append((star, e))
    for idx in range(len(objs)):
        for e in exps:
            if (idx, e) not in plan:
                plan.append((idx, e))
    spent = 0.0
    for n_done, (idx, e) in enumerate(plan):
        cost = 1.5 * max(e.bit_length(), 1) * mulcost
        if n_done >= 1 and spent + cost > budget:
            continue
        spent += cost
        v, x = objs[idx]
        if e.bit_length() >= 750:
            rec.case("pow:>=750bit", (name, "pow", v, e), sample={"class": cls.__name__, "op": "x ** e", "x": v, "e_bits": e.bit_length()})
        call(lambda: x ** e)
    # binary
    pairs = list(itertools.product(objs, repeat=2)) if exhaustive_pairs else [(a, b) for a in objs for b in rng.sample(objs, min(len(objs), 3 if quick else 6))]
    for (va, a), (vb, b) in pairs:
        rec.case(cname or "adhoc", (name, "bin", va, vb), nontrivial=nontriv(va, vb))
        call(lambda: a + b)
        call(lambda: a - b)
        st, prod = call(lambda: a * b)
        st2, quo = call(lambda: a / b)
        rec.case("laws", None, nontrivial=False)
        if st == "ok":
            law_check(rec, name, "a * b == b * a", prod == b * a, {"cls": name, "a": va, "b": vb})
        law_check(rec, name, "a + b == b + a", a + b == b + a, {"cls": name, "a": va, "b": vb})
        if st2 == "ok" and any(vb):
            law_check(rec, name, "(a / b) * b == a", quo * b == a, {"cls": name, "a": va, "b": vb})
        eq = call(lambda: a == b)
        ne = call(lambda: a != b)
        law_check(rec, name, "a == b is value equality", eq == ("ok", tuple(va) == tuple(vb)) and ne == ("ok", tuple(va) != tuple(vb)), {"cls": name, "a": va, "b": vb})
    # triples
    trip = [tuple(rng.choice(objs) for _ in range(3)) for _ in range(6 if quick else 30)]
    for (va, a), (vb, b), (vc, c) in trip:
        case = {"cls": name, "a": va, "b": vb, "c": vc}
        rec.case(cname or "adhoc", (name, "tri", va, vb, vc), nontrivial=nontriv(va, vb, vc))
        law_check(rec, name, "(a + b) + c == a + (b + c)", (a + b) + c == a + (b + c), case)
        law_check(rec, name, "(a * b) * c == a * (b * c)", (a * b) * c == a * (b * c), case)
        law_check(rec, name, "a * (b + c) == a * b + a * c", a * (b + c) == a * b + a * c, case)
        law_check(rec, name, "a + 0 == a, a * 1 == a, a + (-a) == 0", a + cls.zero() == a and a * cls.one() == a and a + (-a) == cls.zero(), case)
    # integer operands
    for v, x in objs[: (4 if quick else len(objs))]:
        for n in G.int_operands(F.p, rng):
            rec.case("int-operand", (name, "int", v, n), sample={"class": cls.__name__, "op": "x (op) int", "x": v, "int": n})
            call(lambda: x * n)
            call(lambda: n * x)
            call(lambda: x / n)
            if k == 1:
                call(lambda: x + n)
                call(lambda: n + x)
                call(lambda: x - n)
                call(lambda: n - x)
                call(lambda: n / x)
                m = n % F.p
                law_check(rec, name, "x == int in [0, p) is value equality", (x == m) is (v[0] == m), {"cls": name, "x": v, "int": m})
            else:
                st, r1 = call(lambda: x * n)
                if st == "ok":
                    law_check(rec, name, "x * n == x * embed(n mod p)", r1 == x * cls([n % F.p] + [0] * (k - 1)), {"cls": name, "x": v, "int": n})
    # construction from unreduced / negative ints and from FQ objects
    for _ in range(4):
        raw = [rng.choice([-1, F.p, F.p + 3, -F.p - 2, rng.getrandbits(700), -rng.getrandbits(700), rng.randrange(F.p)]) for _ in range(k)]
        st, x = call(lambda: G.make(cls, tuple(raw)) if k > 1 else cls(raw[0]))
        if st == "ok":
            law_check(rec, name, "construction reduces its argument", x == G.make(cls, tuple(c % F.p for c in raw)), {"cls": name, "raw": raw})


def run(rec):
    import_all()
    fmon.install()
    rng = rec.rng
    quick = rec.tier == "quick"
    i = 0
    # --- real fields
    for key, (cls, F) in sorted(G.concrete_classes().items()):
        reps = 2 if quick else 6
        for rep in range(reps):
            i += 1
            if rec.mine(i):
                exercise(rec, key, cls, F, rng, quick, heavy=(rep == 0))
    # --- other large primes / moduli through the extension mechanism
    for bits in (5, 17, 61, 127, 256):
        i += 1
        if not rec.mine(i):
            continue
        p = next(n for n in range((1 << bits) - 1, 0, -2) if is_prime(n))
        for impl in ("ref", "opt"):
            cls, F = G.adhoc_class(impl, p)
            exercise(rec, (impl, "p%d" % bits, 1), cls, F, rng, quick)
            mc2 = find_irreducible(p, 2, rng)
            cls, F = G.adhoc_class(impl, p, mc2)
            exercise(rec, (impl, "p%d" % bits, 2), cls, F, rng, quick)
            if bits <= 61:
                mc12 = find_irreducible(p, 12, rng, sparse=rng.random() < 0.5) if bits <= 17 else None
                if mc12:
                    cls, F = G.adhoc_class(impl, p, mc12)
                    exercise(rec, (impl, "p%d" % bits, 12), cls, F, rng, quick, heavy=False)
    # --- W4: exhaustive small fields
    pmax1 = 13 if quick else 61
    for p in [q for q in range(2, pmax1 + 1) if is_prime(q)]:
        i += 1
        if not rec.mine(i):
            continue
        for impl in ("ref", "opt"):
            cls, F = G.adhoc_class(impl, p)
            els = [tuple(e) for e in F.all_elements()]
            exercise(rec, (impl, "GF(%d)" % p, 1), cls, F, rng, quick, exhaustive_pairs=True, els=els, heavy=False)
            rec.classes["W4:GF(p)"] += len(els) ** 2
            rec.exhaustive_space("%s FQ over GF(%d): all elements, all ordered pairs, + - * / == and int mixing" % (impl, p), len(els) ** 2)
    pmax2 = 5 if quick else 11
    for p in [q for q in range(2, pmax2 + 1) if is_prime(q)]:
        for mc in G.irreducible_quadratics(p):
            i += 1
            if not rec.mine(i):
                continue
            for impl in ("ref", "opt"):
                cls, F = G.adhoc_class(impl, p, mc)
                els = [tuple(e) for e in F.all_elements()]
                exercise(rec, (impl, "GF(%d^2)/%r" % (p, mc), 2), cls, F, rng, quick, exhaustive_pairs=True, els=els, heavy=False)
                rec.classes["W4:GF(p^2)"] += len(els) ** 2
                rec.exhaustive_space("%s FQ2 over GF(%d), modulus x^2+%dx+%d: all elements, all ordered pairs" % (impl, p, mc[1], mc[0]), len(els) ** 2)
    interleaved_configurations(rec, rng, quick)
    hash_colliding_operands(rec, rng, quick)
    derived_configurations(rec, rng, quick)
    typed_variants(rec, rng, quick)
    near_power_of_two_primes(rec, rng, quick)
    if rec.shard in (2, 9) or not quick:
        threads_phase(rec)
    else:
        rec.case("threads:field-arithmetic", None, nontrivial=False)
    if rec.shard == 5 or not quick:
        from .common import soak_size, soak_then_reprobe
        import py_ecc.fields as pf
        for cname in ("optimized_bls12_381_FQ", "bn128_FQ"):
            cls = getattr(pf, cname)
            p_ = cls.field_modulus
            a0 = cls(rng.randrange(1, p_))
            first = [rng.randrange(1, p_) for _ in range(3)]

            def distinct_inv(cls=cls, a0=a0, p_=p_):
                j = 0
                while True:
                    j += 1
                    v = (j * 0x9E3779B97F4A7C15 + (j << 200)) % p_ or 1
                    yield (lambda v=v: (call(lambda: a0 / cls(v)), call(lambda: a0 / v)))
            soak_then_reprobe(rec, "distinct-inverses", [lambda v=v: (call(lambda: a0 / cls(v)), call(lambda: cls(v) ** 3)) for v in first], distinct_inv(), soak_size(["py_ecc.utils", "py_ecc.fields.field_elements", "py_ecc.fields.optimized_field_elements"]))
    else:
        rec.case("soak:distinct-inverses", None, nontrivial=False)
    # degree-12 extensions of GF(2), GF(3), GF(5), GF(7)
    mrng = random.Random(rec.seed * 7919 + 12)
    for p in (2, 3, 5, 7):
        for mi in range(3):
            mc = find_irreducible(p, 12, mrng, sparse=(mi == 0 and p > 2))
            i += 1
            if not rec.mine(i):
                continue
            for impl in ("opt", "ref"):
                cls, F = G.adhoc_class(impl, p, mc, tag="_m%d" % mi)
                if p == 2 and (impl == "opt" or not quick) and mi == 0:
                    # all 4095 non-zero elements: inverse judged by the inv monitor and by the defining equation
                    n = 0
                    one = cls.one()
                    for v in F.all_elements():
                        if not any(v):
                            continue
                        x = cls(list(v))
                        st, xi = call(x.inv)
                        if st == "ok":
                            law_check(rec, "%s:GF(2^12)" % impl, "x * inv(x) == 1", x * xi == one, {"cls": "GF(2^12)", "x": v, "mc": mc})
                        n += 1
                    rec.classes["W4:GF(2^12)"] += n
                    rec.count_distinct(n)
                    rec.exhaustive_space("%s FQ12 over GF(2), modulus %r: inverse of every non-zero element" % (impl, mc), n)
                elif p == 3 and impl == "opt" and not quick and mi == 0:
                    n = 0
                    one = cls.one()
                    for v in F.all_elements():
                        if not any(v):
                            continue
                        x = cls(list(v))
                        st, xi = call(x.inv)
                        n += 1
                    rec.count_distinct(n)
                    rec.exhaustive_space("opt FQ12 over GF(3), modulus %r: inverse of every non-zero element (inv monitor)" % (mc,), n)
                exercise(rec, (impl, "GF(%d^12)#%d" % (p, mi), 12), cls, F, rng, quick, heavy=True)


def near_power_of_two_primes(rec, rng, quick):
    """Extension fields over primes just below a power of two (31, 61, 127, 8191, 2^61-1, 2^255-19, the secp256k1 prime), on
    elements whose coefficients are all p-1 or all in the top of the range: where packed / lazy-reduction arithmetic runs out
    of guard bits first."""
    m12 = random.Random(31337)
    primes = [31, 61, 127, 8191, (1 << 61) - 1, (1 << 255) - 19, params.SECP_P]
    for p in (primes if not quick else [primes[(rec.shard + k) % len(primes)] for k in range(3)]):
        for deg in (12, 2):
            mc = find_irreducible(p, deg, m12, sparse=True)
            for impl in ("opt", "ref"):
                cls, F = G.adhoc_class(impl, p, mc, tag="_np2")
                top = [tuple(p - 1 for _ in range(deg)), tuple(p - 1 - rng.randrange(0, max(2, p // 16)) for _ in range(deg)),
                       tuple(p - 2 for _ in range(deg)), tuple((p - 1) if i % 2 else (p - 1 - rng.randrange(0, max(2, p // 8))) for i in range(deg))]
                xs = [G.make(cls, v) for v in top]
                rec.case("near-power-of-two-prime", None, nontrivial=False)
                for a in xs:
                    for b in xs[:2]:
                        call(lambda: a * b)
                    call(lambda: a * a)
                    call(lambda: (a * a) / a)
                    call(lambda: a ** 3)


def typed_variants(rec, rng, quick):
    """Same values, other legal types: coefficient sequences given as tuples, int operands / exponents that are instances of an
    int subclass, FQ built from such an int."""
    import py_ecc.fields as pf
    from .common import IntSub
    for name in ("bn128_FQ", "optimized_bls12_381_FQ", "bls12_381_FQ2", "optimized_bn128_FQ2", "optimized_bls12_381_FQ12", "bn128_FQ12"):
        cls = getattr(pf, name)
        p = cls.field_modulus
        deg = getattr(cls, "degree", 0) or 1
        v = [rng.randrange(p) for _ in range(deg)]
        rec.case("typed-variants", None, nontrivial=False)
        if deg == 1:
            x = cls(IntSub(v[0]))
            call(lambda: x + IntSub(5))
            call(lambda: IntSub(7) - x)
            call(lambda: x / IntSub(3))
            call(lambda: IntSub(3) / x)
        else:
            x = cls(tuple(v))
            call(lambda: cls([IntSub(c) for c in v]) * x)
            call(lambda: x / IntSub(3))
            call(x.inv)
        call(lambda: x * IntSub(p + 2))
        call(lambda: x ** IntSub(rng.getrandbits(90)))
        call(lambda: x ** IntSub(0))


def derived_configurations(rec, rng, quick):
    """Classes derived from a concrete field class that has ALREADY been used, overriding only its modulus coefficients (or only
    its prime): per-class state set up by the parent's first instance must not leak into the child."""
    import py_ecc.fields as pf
    from ..model.gf import is_irreducible
    for impl in ("opt", "ref"):
        pre = "optimized_" if impl == "opt" else ""
        parents = []
        a7, F7 = G.adhoc_class(impl, 7, (1, 0), tag="_par")
        parents.append((a7, 7))
        parents.append((getattr(pf, pre + "bn128_FQ2"), None))
        parents.append((getattr(pf, pre + "bls12_381_FQ2"), None))
        for parent, _ in parents:
            p = parent.field_modulus
            x0 = parent([rng.randrange(p), rng.randrange(1, p)])
            call(lambda: x0 * x0)                                   # the parent is used first
            for mc in ((2, 0), (3, 0), (5, 0), (6, 0), (1, 1), (2, 1), (3, 1)):
                if mc == tuple(int(getattr(c, "n", c)) for c in parent.FQ2_MODULUS_COEFFS) or not is_irreducible(mc, p):
                    continue
                cls, F = G.derived_class(parent, mc=mc)
                rec.case("derived-configurations", None, nontrivial=False)
                xs = [G.make(cls, F.rand(rng)) for _ in range(3)] + [cls([0, 1]), cls([1, 0])]
                for a in xs[:4]:
                    for b in xs[:3]:
                        call(lambda: a * b)
                        call(lambda: a / b)
                    call(a.inv)
                    call(lambda: a ** 5)
                    call(lambda: a * a.inv())
                call(lambda: x0 * x0)                               # ... and the parent afterwards
                break
        # a child that overrides only the prime (x^2 + 1 stays irreducible for p = 3 mod 4)
        for q in (11, 19, 23):
            cls, F = G.derived_class(a7, p=q)
            rec.case("derived-configurations", None, nontrivial=False)
            a, b = G.make(cls, F.rand(rng)), G.make(cls, (3, 4))
            call(lambda: a * b)
            call(lambda: a / b)
            call(b.inv)
        # degree 12 over GF(2) and GF(3): child with another irreducible modulus
        m12 = random.Random(99)
        for p in (2, 3):
            par, Fp_ = G.adhoc_class(impl, p, find_irreducible(p, 12, m12), tag="_par12")
            e0 = G.make(par, Fp_.rand(rng))
            call(lambda: e0 * e0)
            cls, F = G.derived_class(par, mc=find_irreducible(p, 12, m12))
            rec.case("derived-configurations", None, nontrivial=False)
            xs = [G.make(cls, F.rand(rng)) for _ in range(3)]
            for a in xs:
                call(lambda: a * xs[0])
                if any(int(getattr(c, "n", c)) for c in a.coeffs):
                    call(a.inv)
                call(lambda: a ** 7)


def hash_colliding_operands(rec, rng, quick):
    """Distinct residues / ints with equal hash() (CPython hashes ints modulo 2^61 - 1) used one after the other: a memo table
    keyed by hash(x) instead of x would hand the second the first one's result.  Inversion, division, int operands, exponents."""
    import py_ecc.fields as pf
    from . import curvegen as CG
    M61 = CG.M61
    for name in ("bn128_FQ", "bls12_381_FQ", "optimized_bn128_FQ", "optimized_bls12_381_FQ"):
        cls = getattr(pf, name)
        p = cls.field_modulus
        for rep in range(2 if quick else 20):
            d = rng.randrange(1, p - 8 * M61)
            k = rng.randrange(1, 8)
            a = cls(rng.randrange(1, p))
            rec.case("hash-colliding-operands", None, nontrivial=False)
            for dd in (d, d + k * M61, d + M61, d):
                call(lambda: a / cls(dd))
                call(lambda: a / dd)
                call(lambda: dd / a)
                call(lambda: cls(dd) ** 3)
                call(lambda: a * dd)
            e0 = rng.getrandbits(100)
            for e in (e0, e0 + M61, e0 + 3 * M61):
                call(lambda: a ** e)
    for name in ("bn128_FQ2", "optimized_bls12_381_FQ2", "optimized_bn128_FQ12", "bls12_381_FQ12"):
        cls = getattr(pf, name)
        p = cls.field_modulus
        deg = cls.degree
        base = [rng.randrange(1, p - 8 * M61) for _ in range(deg)]
        for j in range(2 if quick else 6):
            v1 = list(base)
            v2 = list(base)
            v2[j % deg] += M61 * (1 + j)
            rec.case("hash-colliding-operands", None, nontrivial=False)
            x1, x2 = cls(v1), cls(v2)
            call(x1.inv)
            call(x2.inv)
            call(lambda: x1 * x1)
            call(lambda: x2 * x2)
            call(lambda: x1 / x2)
            call(lambda: x2 / x1)
            d = rng.randrange(1, p - 8 * M61)
            call(lambda: x1 / d)
            call(lambda: x1 / (d + M61))


def interleaved_configurations(rec, rng, quick):
    """Several field configurations alive at once and used alternately: same prime with different moduli, same modulus
    with different primes, ad-hoc classes next to the shipped ones.  Every operation is judged by the field monitors,
    so state shared between configurations (a cache keyed too coarsely, a class attribute set by the last constructor)
    shows as a wrong result in one of them."""
    import py_ecc.fields as pf
    groups = []
    for p in (5, 7, 11, 13):
        qs = G.irreducible_quadratics(p)
        groups.append([(p, qs[0]), (p, qs[-1]), (p, qs[len(qs) // 2])])
    groups.append([(7, (1, 0)), (11, (1, 0)), (19, (1, 0)), (23, (1, 0))])                    # one modulus, several primes (x^2 + 1 is irreducible for p = 3 mod 4)
    m12 = random.Random(4242)
    groups.append([(3, find_irreducible(3, 12, m12)), (3, find_irreducible(3, 12, m12)), (5, find_irreducible(5, 12, m12))])
    for gi, grp in enumerate(groups):
        for impl in ("opt", "ref"):
            live = []
            for (p, mc) in grp:
                cls, F = G.adhoc_class(impl, p, mc, tag="_il%d" % gi)
                live.append((cls, F, [G.make(cls, F.rand(rng)) for _ in range(3)]))
            if gi == 4:
                shipped = getattr(pf, ("optimized_" if impl == "opt" else "") + "bn128_FQ2")
                live.append((shipped, None, [shipped([rng.randrange(shipped.field_modulus) for _ in range(2)]) for _ in range(3)]))
            for step in range(12 if quick else 60):
                cls, F, xs = live[step % len(live)]
                a, b = xs[step % 3], xs[(step + 1) % 3]
                rec.case("interleaved-configurations", None, nontrivial=False)
                call(lambda: a * b)
                call(lambda: a / b)
                call(lambda: (a - b) ** (step + 2))
                if hasattr(a, "inv"):
                    call(a.inv)
                # creating another instance of a sibling configuration in between must not matter
                other = live[(step + 1) % len(live)]
                call(lambda: type(other[2][0])(list(other[2][0].coeffs)) if hasattr(other[2][0], "coeffs") else type(other[2][0])(1))
                call(lambda: a * b + a)


def threads_phase(rec):
    """Field arithmetic of all concrete classes while other threads do field arithmetic of the same and of other classes."""
    from .common import threaded_reprobe
    rng = rec.rng
    thunks = []
    for key, (cls, F) in sorted(G.concrete_classes().items()):
        impl, curve, deg = key
        if deg == 1:
            continue
        x, y, z = (G.make(cls, tuple(rng.randrange(F.p) for _ in range(deg))) for _ in range(3))
        nm = "%s.%s.FQ%d" % key
        thunks.append((nm + ".mul-chain", lambda x=x, y=y, z=z: ((x * y) * z) * (y * y)))
        thunks.append((nm + ".div", lambda x=x, y=y: x / y))
        thunks.append((nm + ".pow", lambda x=x: x ** 0xF123456789ABCDEF0123456789))
    threaded_reprobe(rec, "field-arithmetic", thunks, threads=4, rounds=3 if rec.tier == "quick" else 40)


def replay(rec, case):
    import_all()
    fmon.install()
    if case.get("fn") == "threads":
        return threads_phase(rec)
    if case.get("fn") != "fieldop":
        return
    p, mc = case["p"], tuple(case["mc"])
    impl = "opt" if "opt" in case.get("cls", "") or "ptimized" in case.get("cls", "") else None
    for impl in ("ref", "opt"):
        cls, F = G.adhoc_class(impl, p, mc if mc else None)
        x = G.make(cls, tuple(case["self"]))
        op = case["op"]
        if op == "__pow__":
            call(lambda: x ** case["exp"])
        elif op == "__neg__":
            call(lambda: -x)
        elif op == "inv":
            call(x.inv)
        else:
            ok = case.get("other_kind")
            o = case["other"][0] if ok == "int" else G.make(cls, tuple(case["other"])) if ok == "el" else None
            if o is not None:
                call(lambda: getattr(x, op)(o))
