"""C04 — verification is total and rejects every malformed or unsafe key and signature."""
from __future__ import annotations

from ..model import bls as MB
from ..model import params, zcash as Z
from ..monitors import bls as bmon
from ..monitors import zcash as zmon
from ..monitors.install import import_all
from . import curvegen as CG
from .common import call

SELFTESTS = ["fields", "params", "zcash", "h2c", "bls"]
DECIDING = ["M-bls.total", "M-bls.keyvalidate", "M-bls.unsafe-input", "M-pair-arg"]
SCOPE = ["M-bls.total", "M-bls.keyvalidate", "M-bls.unsafe-input", "M-pair-arg"]
RULE = ("cases = calls of KeyValidate, Verify (three suites), PopVerify, AggregateVerify and FastAggregateVerify on the real ciphersuite classes with "
        "hostile byte strings, judged by monitors wrapped around the methods: (a) result is a bool and nothing is raised; (b) pv.model decides "
        "key validity (canonical 48-byte ZCash encoding, on curve, non-identity, [r]P = O) and signature validity (canonical 96 bytes, on the "
        "twist, [r]Q = O) and demands False whenever either fails; KeyValidate must equal the model exactly; (c) M-pair-arg is wrapped around "
        "`pairing` as the ciphersuites call it and checks every argument pair that it returns for with model arithmetic (on curve, in the "
        "subgroup, G1 argument non-identity), which exposes a dropped check even when the final boolean stays False. Inputs: lengths 0..200; "
        "valid encodings with leading/trailing bytes, truncated, with a zero byte inserted at offset 48; all 8 flag combinations x x-classes "
        "(0, 1, p-1, p, p+1, 2^381-1, subgroup x, on-curve non-subgroup x, off-curve x) x second-word classes; canonical encodings of k*G + T "
        "and T for cofactor-order T (3, 11, 10177, large on G1; 13, 23, large on G2); identity encodings; random bytes; each hostile key at "
        "every position of key lists of length 1..4. distinct = distinct call; non-trivial = input is not one of the two fixed malformed strings "
        "of the existing suite")
ASSUMPTIONS = ["inputs are bytes objects of any length; other types are outside the statement"]
R = params.BLS_R
P = params.BLS_P
E1, E2, F1, F2 = params.BLS_E1, params.BLS_E2, params.BLS_FP, params.BLS_FP2
SUITE_FIXED = {b"\x11" * 48, b"\x40" + b"\x00" * 47, b"\x40" + b"\x00" * 95}


def shards(tier):
    return 16


KEY_CLASSES = ["length", "padded", "truncated", "flag-grid", "non-subgroup", "torsion", "identity", "random", "valid", "noncanonical"]
SIG_CLASSES = ["length", "padded", "zero-at-48", "flag-grid", "non-subgroup", "torsion", "identity", "random", "valid", "noncanonical"]


def required_classes(tier):
    out = ["key:" + c for c in KEY_CLASSES] + ["sig:" + c for c in SIG_CLASSES]
    out += ["soak:valid-keys", "typed-variants", "sentinels:before", "sentinels:after", "soak:distinct-keys", "key:valid-keys-that-cancel", "list-shapes", "key:valid-plus-small-order", "key:identity-among-honest", "key:cancelling-set", "ep:KeyValidate", "ep:Verify", "ep:PopVerify", "ep:AggregateVerify", "ep:FastAggregateVerify", "valid-call-reaching-pairing", "list-position"]
    return out


def hostile_keys(rng, valid_pk, quick):
    out = []
    G1m = params.bls_generators()[0]
    for n in ([0, 1, 47, 49, 96, 200] + rng.sample(range(2, 200), 6 if quick else 60)):
        out.append(("length", rng.randbytes(n)))
    for pad in (b"\x00", b"\xff", b"\x00\x00", b"\x01" * 16, b"\xff\xff\xff"):
        out.append(("padded", pad + valid_pk))
        out.append(("padded", valid_pk + pad))
    for t in ([1, 47] + rng.sample(range(2, 47), 2 if quick else 12)):
        out.append(("truncated", valid_pk[:48 - t]))
        out.append(("truncated", valid_pk[:48 - t] + b"\x00" * t))
        out.append(("truncated", b"\x00" * t + valid_pk[:48 - t]))
    sub = E1.mul(G1m, rng.randrange(1, R))[0][0]
    non = E1.rand_point(rng)[0][0]
    while True:
        off = rng.randrange(P)
        if not E1.lift_x((off,)):
            break
    for x in (0, 1, P - 1, P, P + 1, (1 << 381) - 1, sub, non, off):
        for fl in range(8):
            out.append(("flag-grid", ((fl << 381) | x).to_bytes(48, "big")))
    order = params.BLS_H1 * R
    qs = [3, 11, 10177] if not quick else [[3, 11, 10177][rng.randrange(3)]]
    for q in qs + [0]:
        T = CG.torsion_point(E1, order, q, rng) if q else E1.mul(E1.rand_point(rng), R)
        if T is None:
            continue
        out.append(("torsion", Z.enc_g1(T)))
        out.append(("non-subgroup", Z.enc_g1(E1.add(E1.mul(G1m, rng.randrange(1, R)), T))))
    out.append(("non-subgroup", Z.enc_g1(E1.rand_point(rng))))
    # cofactor components lying in an eigenspace of the curve endomorphism (what a mis-parametrised fast subgroup test would accept)
    for q in ((10177, 859267) if not quick else ((10177, 859267)[rng.randrange(2)],)):
        for V in CG.eigen_torsion(E1, order, q, rng, tries=1):
            out.append(("non-subgroup", Z.enc_g1(E1.add(E1.mul(G1m, rng.randrange(1, R)), V))))
    # non-canonical encodings of VALID keys: x + p where that still fits in 381 bits (about 23% of all x)
    for _ in range(40):
        Pt = E1.mul(G1m, rng.randrange(1, R))
        if Pt[0][0] + P < (1 << 381):
            w = Z.enc_g1_word(Pt) + P
            out.append(("noncanonical", w.to_bytes(48, "big")))
            break
    out.append(("noncanonical", (int.from_bytes(valid_pk, "big") ^ (1 << 381)).to_bytes(48, "big")))       # other sign bit: -P, valid but another key
    out.append(("identity", Z.enc_g1(None)))
    out.append(("identity", ((7 << 381)).to_bytes(48, "big")))
    out.append(("identity", ((6 << 381) | 1).to_bytes(48, "big")))
    for _ in range(4 if quick else 40):
        out.append(("random", rng.randbytes(48)))
        b = bytearray(rng.randbytes(48)); b[0] = (b[0] & 0x1F) | 0x80 | (rng.getrandbits(1) << 5)
        out.append(("random", bytes(b)))
    return out


def hostile_sigs(rng, valid_sig, quick):
    out = []
    G2m = params.bls_generators()[1]
    for n in ([0, 1, 48, 95, 97, 192] + rng.sample(range(2, 200), 4 if quick else 40)):
        out.append(("length", rng.randbytes(n)))
    for pad in (b"\x00", b"\xff", b"\x00" * 16):
        out.append(("padded", pad + valid_sig))
        out.append(("padded", valid_sig + pad))
    out.append(("zero-at-48", valid_sig[:48] + b"\x00" + valid_sig[48:]))
    out.append(("zero-at-48", valid_sig[:48] + b"\x00" + valid_sig[48:95]))
    out.append(("zero-at-48", valid_sig[:47] + b"\x00" + valid_sig[47:95]))
    S = E2.mul(G2m, rng.randrange(1, R))
    N = E2.rand_point(rng)
    while True:
        offx = F2.rand(rng)
        if not E2.lift_x(offx):
            break
    firsts = [(0, 0), (1, 0), (P - 1, P - 1), (P, 0), ((1 << 381) - 1, 1), (S[0][1], S[0][0]), (N[0][1], N[0][0]), (offx[1], offx[0])]
    for x1, x0 in firsts:
        for fl in range(8):
            seconds = [x0] if quick and fl not in (4, 5) else [x0, P, x0 | (1 << 383), x0 | (1 << 381), (1 << 384) - 1]
            for z2 in seconds:
                out.append(("flag-grid", ((fl << 381) | x1).to_bytes(48, "big") + z2.to_bytes(48, "big")))
    order = params.BLS_H2 * R
    qs = [13, 23] if not quick else [[13, 23][rng.randrange(2)]]
    for q in qs + [0]:
        T = CG.torsion_point(E2, order, q, rng) if q else E2.mul(E2.rand_point(rng), R)
        if T is None:
            continue
        out.append(("torsion", Z.enc_g2(T)))
        out.append(("non-subgroup", Z.enc_g2(E2.add(Z.dec_g2(valid_sig), T))))
    out.append(("non-subgroup", Z.enc_g2(N)))
    # non-canonical encodings of the VALID signature: a coordinate + p
    z1, z2 = int.from_bytes(valid_sig[:48], "big"), int.from_bytes(valid_sig[48:], "big")
    out.append(("noncanonical", valid_sig[:48] + (z2 + P).to_bytes(48, "big")))
    if (z1 & Z.M381) + P < (1 << 381):
        out.append(("noncanonical", (z1 + P).to_bytes(48, "big") + valid_sig[48:]))
    out.append(("noncanonical", valid_sig[:48] + (z2 + 2 * P).to_bytes(48, "big")))
    out.append(("identity", Z.enc_g2(None)))
    out.append(("identity", (7 << 381).to_bytes(48, "big") + bytes(48)))
    out.append(("identity", (6 << 381).to_bytes(48, "big") + (1).to_bytes(48, "big")))
    for _ in range(3 if quick else 30):
        out.append(("random", rng.randbytes(96)))
        b = bytearray(rng.randbytes(96)); b[0] = (b[0] & 0x1F) | 0x80; b[48] &= 0x1F
        out.append(("random", bytes(b)))
    return out


def run(rec):
    import_all()
    cs = bmon.install(pair_arg=True)
    zmon.install(["subgroup"])                 # M-subgroup observes the library's own subgroup checks on the way (informational here)
    suites = {"basic": cs.G2Basic, "aug": cs.G2MessageAugmentation, "pop": cs.G2ProofOfPossession}
    names = list(suites)
    rng = rec.rng
    quick = rec.tier == "quick"
    rounds = 1 if quick else 4
    for rd in range(rounds):
        suite = names[(rec.shard + rd) % 3]
        S = suites[suite]
        Pp = suites["pop"]
        sk = rng.randrange(1, R)
        pk = bmon.register_key(sk)
        msg = rng.choice([b"", b"abc", rng.randbytes(32), rng.randbytes(200)])
        sig = bmon.m_sign(suite, sk, msg)
        sig_pop = bmon.m_sign("pop", sk, msg)
        prf = bmon.m_pop(sk)
        sk2 = rng.randrange(1, R)
        pk2 = bmon.register_key(sk2)
        msg2 = msg + b"2"
        agg2 = MB.aggregate([sig, bmon.m_sign(suite, sk2, msg2)])

        def note(kind, cls, data):
            rec.case("%s:%s" % (kind, cls), (kind, data), nontrivial=data not in SUITE_FIXED,
                     sample={"input": kind, "class": cls, "len": len(data), "head": data[:8]})

        # ---- sentinel probes: a fixed set of cheap hostile calls, made at the start of the round and again at its end,
        #      after everything else has happened in this process (state left behind by earlier calls must not change them)
        idk0, infsig = Z.enc_g1(None), Z.enc_g2(None)

        def sentinels(tag):
            rec.case("sentinels:" + tag, None, nontrivial=False)
            for Sx in (S, suites["basic"], Pp):
                call(Sx.KeyValidate, idk0)
                call(Sx.KeyValidate, pk)
                call(Sx.Verify, idk0, msg, infsig)
                call(Sx.AggregateVerify, [pk, idk0], [msg, msg2], sig)
            call(Pp.PopVerify, idk0, infsig)
            call(Pp.FastAggregateVerify, [idk0], msg, infsig)
            call(S.Verify, pk, msg, sig)
        sentinels("before")
        # valid keys that cancel: pk and -pk (each passes KeyValidate, their sum is the identity)
        pk_neg = bmon.register_key(R - sk)
        rec.case("key:valid-keys-that-cancel", ("cancel-valid", pk), sample={"input": "FastAggregateVerify([pk, -pk], ...)"})
        call(Pp.FastAggregateVerify, [pk, pk_neg], msg, infsig)
        call(Pp.FastAggregateVerify, [pk, pk_neg], msg, sig_pop)
        call(Pp.FastAggregateVerify, [pk, pk_neg, pk2], msg, bmon.m_sign("pop", sk2, msg))
        call(S.AggregateVerify, [pk, pk_neg], [msg, msg2], MB.aggregate([sig, bmon.m_sign(suite, R - sk, msg2)]))
        # ---- fully valid calls: the pairing is reached, M-pair-arg observes library-derived and caller-derived arguments
        rec.case("valid-call-reaching-pairing", ("valid", suite, pk, msg))
        rec.case("key:valid", None, nontrivial=False)
        rec.case("sig:valid", None, nontrivial=False)
        call(S.Verify, pk, msg, sig)
        call(Pp.PopVerify, pk, prf)
        call(S.AggregateVerify, [pk, pk2], [msg, msg2], agg2)
        call(Pp.FastAggregateVerify, [pk, pk2], msg, MB.aggregate([sig_pop, bmon.m_sign("pop", sk2, msg)]))
        for ep in ("KeyValidate", "Verify", "PopVerify", "AggregateVerify", "FastAggregateVerify"):
            rec.case("ep:" + ep, None, nontrivial=False)

        # ---- hostile keys
        hk = hostile_keys(rng, pk, quick)
        for j, (cls, k) in enumerate(hk):
            note("key", cls, k)
            call(S.KeyValidate, k)
            heavy = cls in ("non-subgroup", "torsion", "identity", "padded", "noncanonical") or j % 7 == 0
            if heavy or not quick:
                call(S.Verify, k, msg, sig)
                call(Pp.PopVerify, k, prf)
                call(Pp.FastAggregateVerify, [k], msg, sig_pop)
            if cls in ("non-subgroup", "torsion", "identity", "padded", "truncated") and (j % 3 == 0 or not quick):
                # the hostile key at every position of key lists of length 1..4
                for n in ((1, 3) if quick else (1, 2, 3, 4)):
                    for pos in range(n):
                        keys = [pk2] * n
                        keys[pos] = k
                        rec.case("list-position", ("pos", n, pos, k))
                        call(S.AggregateVerify, keys, [msg + bytes([i]) for i in range(n)], agg2)
                        if pos == n - 1:
                            call(Pp.FastAggregateVerify, keys, msg, sig_pop)
        # ---- key SETS whose members are outside the subgroup but whose cofactor components cancel in the sum:
        #      every member is invalid, so the answer must be False although the aggregate key is a fine subgroup point
        G1m = params.bls_generators()[0]
        order1 = params.BLS_H1 * R
        for q in ((3, 11) if quick else (3, 11, 10177, 0)):
            T = CG.torsion_point(E1, order1, q, rng) if q else E1.mul(E1.rand_point(rng), R)
            if T is None:
                continue
            P1, P2 = E1.mul(G1m, sk), E1.mul(G1m, sk2)
            k1, k2 = Z.enc_g1(E1.add(P1, T)), Z.enc_g1(E1.add(P2, E1.neg(T)))
            both = MB.aggregate([sig_pop, bmon.m_sign("pop", sk2, msg)])
            bmon.register_key((sk + sk2) % R)
            rec.case("key:cancelling-set", ("cancel", q, k1, k2), sample={"input": "keys P1+T, P2-T", "order_of_T": q or "large"})
            call(Pp.FastAggregateVerify, [k1, k2], msg, both)
            call(Pp.FastAggregateVerify, [pk2, k1, k2], msg, MB.aggregate([both, bmon.m_sign("pop", sk2, msg)]))
            call(S.AggregateVerify, [k1, k2], [msg, msg2], agg2)
            if q:
                bmon.register_key((q * sk) % R)
                call(Pp.FastAggregateVerify, [k1] * q if q <= 11 else [k1, k2], msg, bmon.m_sign("pop", (q * sk) % R, msg) if q <= 11 else both)
            # signature side: S + T and S' - T are each outside the subgroup
            if q in (3, 0):
                continue
        # ---- a VALID signer's key moved out of the subgroup by a small-order point, offered with that signer's honest signature:
        #      e(H(m), P + T) = e(H(m), P), so the pairing equation still holds and only key validation can answer False
        for q in ((3, 11, 0) if not quick else ((3, 11, 0)[(rec.shard + rd) % 3],)):
            T = CG.torsion_point(E1, order1, q, rng) if q else E1.mul(E1.rand_point(rng), R)
            if T is None:
                continue
            kT = Z.enc_g1(E1.add(E1.mul(G1m, sk), T))
            rec.case("key:valid-plus-small-order", ("kT", q, kT), sample={"input": "pk + T with the honest signature of pk", "order_of_T": q or "large"})
            call(S.Verify, kT, msg, sig)
            call(suites["basic"].Verify, kT, msg, bmon.m_sign("basic", sk, msg))
            call(Pp.Verify, kT, msg, sig_pop)
            call(S.AggregateVerify, [kT, pk2], [msg, msg2], agg2)
            call(suites["basic"].AggregateVerify, [pk2, kT], [msg2, msg], MB.aggregate([bmon.m_sign("basic", sk2, msg2), bmon.m_sign("basic", sk, msg)]))
            call(Pp.FastAggregateVerify, [kT, pk2], msg, MB.aggregate([sig_pop, bmon.m_sign("pop", sk2, msg)]))
        # ---- the identity key next to honest signers, paired with a message nobody signed (its pairing factor is 1)
        idk = Z.enc_g1(None)
        rec.case("key:identity-among-honest", ("idk", suite), sample={"input": "identity key appended to an honest signer set"})
        for Sx, sname in ((S, suite), (suites["basic"], "basic"), (suites["aug"], "aug")):
            a2 = MB.aggregate([bmon.m_sign(sname, sk, msg), bmon.m_sign(sname, sk2, msg2)])
            call(Sx.AggregateVerify, [pk, pk2, idk], [msg, msg2, b"nobody signed this"], a2)
            call(Sx.AggregateVerify, [idk, pk, pk2], [b"nobody signed this", msg, msg2], a2)
            call(Sx.AggregateVerify, [idk], [msg], Z.enc_g2(None))
        call(Pp.FastAggregateVerify, [idk], msg, Z.enc_g2(None))
        call(Pp.FastAggregateVerify, [pk, idk], msg, sig_pop)
        # ---- hostile signatures (valid key, so only the signature checks can reject)
        hs = hostile_sigs(rng, sig, quick)
        for j, (cls, s) in enumerate(hs):
            note("sig", cls, s)
            call(S.Verify, pk, msg, s)
            if cls in ("non-subgroup", "torsion", "identity", "zero-at-48", "padded", "noncanonical") or j % 5 == 0 or not quick:
                call(Pp.PopVerify, pk, s)
                call(S.AggregateVerify, [pk, pk2], [msg, msg2], s)
                call(Pp.FastAggregateVerify, [pk, pk2], msg, s)
        # ---- the same byte strings as a bytes SUBCLASS, and key / message sequences as tuples (judged by value by the same monitors)
        from .common import BytesSub
        rec.case("typed-variants", ("typed", suite), sample={"input": "bytes subclass for key / message / signature; tuples for the key and message lists"})
        call(S.Verify, BytesSub(pk), BytesSub(msg), BytesSub(sig))
        call(S.KeyValidate, BytesSub(pk))
        call(S.KeyValidate, BytesSub(Z.enc_g1(None)))
        call(Pp.PopVerify, BytesSub(pk), BytesSub(prf))
        call(S.AggregateVerify, (pk, pk2), (msg, msg2), agg2)
        call(S.AggregateVerify, (BytesSub(pk), pk2), [BytesSub(msg), msg2], BytesSub(agg2))
        call(Pp.FastAggregateVerify, (pk, pk2), msg, MB.aggregate([sig_pop, bmon.m_sign("pop", sk2, msg)]))
        call(S.Verify, BytesSub(b"\x00" * 48), msg, sig)
        # ---- odd shapes of the key / message lists (must be answered with a bool, never raised)
        rec.case("list-shapes", ("shapes", suite), sample={"input": "empty lists, more keys than messages and vice versa, repeated messages"})
        for Sx in (S, suites["basic"], suites["aug"], Pp):
            call(Sx.AggregateVerify, [], [], sig)
            call(Sx.AggregateVerify, [], [], Z.enc_g2(None))
            call(Sx.AggregateVerify, [pk, pk2], [msg], agg2)
            call(Sx.AggregateVerify, [pk], [msg, msg2], agg2)
            call(Sx.AggregateVerify, [pk, pk2], [msg, msg], agg2)
            call(Sx.AggregateVerify, [], [msg], sig)
        call(Pp.FastAggregateVerify, [], msg, sig_pop)
        call(Pp.FastAggregateVerify, [], msg, Z.enc_g2(None))
        call(Pp.FastAggregateVerify, [pk, pk], msg, sig_pop)
        # ---- both hostile
        for _ in range(6 if quick else 40):
            k = rng.choice(hk)[1]
            s = rng.choice(hs)[1]
            call(S.Verify, k, msg, s)
            call(S.AggregateVerify, [k], [msg], s)
        # ---- soak: many DISTINCT keys through KeyValidate (bounded memo tables recycle their slots), then the sentinels again
        nsoak = 1300 if quick else 6000
        rec.case("soak:distinct-keys", None, nontrivial=False)
        soak_rng = __import__("random").Random(rec.seed * 31 + rec.shard)
        for j in range(nsoak):
            b = bytearray(soak_rng.randbytes(48))
            if j % 3 == 0:
                b[0] = (b[0] & 0x1F) | 0x80
            call(S.KeyValidate, bytes(b))
        if rec.shard % 8 == 5 or not quick:
            import py_ecc.bls.g2_primitives as gp_
            from .common import soak_size
            nvalid = soak_size(["py_ecc.bls.g2_primitives", "py_ecc.bls.ciphersuites", "py_ecc.bls.point_compression"])
            rec.case("soak:valid-keys", None, nontrivial=False)
            Pt_ = E1.mul(G1m, soak_rng.randrange(1, R))
            for j in range(nvalid):
                Pt_ = E1.add(Pt_, G1m)
                kb_ = Z.enc_g1(Pt_)
                if j % 64 == 0:
                    call(S.KeyValidate, kb_)
                else:
                    call(gp_.pubkey_to_G1, kb_)
            rec.event("soak:valid-keys:distinct-arguments", nvalid)
            # keys never seen before, right after the tables have overflowed: a non-subgroup key and a valid one
            Tq = CG.torsion_point(E1, order1, 11, rng)
            fresh_bad = Z.enc_g1(E1.add(E1.mul(G1m, rng.randrange(1, R)), Tq))
            call(S.KeyValidate, fresh_bad)
            call(S.Verify, fresh_bad, msg, sig)
            call(suites["basic"].AggregateVerify, [fresh_bad, pk2], [msg, msg2], agg2)
            sk_f = rng.randrange(1, R)
            call(S.Verify, bmon.register_key(sk_f), msg, bmon.m_sign(suite, sk_f, msg))
        else:
            rec.case("soak:valid-keys", None, nontrivial=False)
        sentinels("after")
        # the existing suite's fixed malformed strings (trivial by the rule, still exercised)
        for k in (b"\x11" * 48, b"\x40" + b"\x00" * 47):
            note("key", "random", k)
            call(S.KeyValidate, k)
            call(S.Verify, k, msg, sig)


def replay(rec, case):
    import_all()
    cs = bmon.install(pair_arg=True)
    suites = {"basic": cs.G2Basic, "aug": cs.G2MessageAugmentation, "pop": cs.G2ProofOfPossession}
    fn = case["fn"]
    S = suites.get(case.get("suite", "basic"), cs.G2Basic)
    if case.get("sk") is not None:
        bmon.register_key(case["sk"])
    for sk in case.get("sks") or []:
        if sk is not None:
            bmon.register_key(sk)
    if fn == "KeyValidate":
        call(S.KeyValidate, case["pk"])
    elif fn == "Verify":
        call(S.Verify, case["pk"], case["msg"], case["sig"])
    elif fn == "PopVerify":
        call(suites["pop"].PopVerify, case["pk"], case["sig"])
    elif fn == "AggregateVerify":
        call(S.AggregateVerify, case["pks"], case["msgs"], case["sig"])
    elif fn == "FastAggregateVerify":
        call(suites["pop"].FastAggregateVerify, case["pks"], case["msg"], case["sig"])
    elif fn == "pairing":
        print("replay: pairing-argument violations are replayed through the ciphersuite call that produced them (see the recorded stack)")
