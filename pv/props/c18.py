"""C18 — secp256k1 point arithmetic equals the textbook group law for all points/scalars."""
from __future__ import annotations

from ..model import params, secp as MS
from ..model.ec import Curve
from ..model.gf import Fld, is_prime
from ..monitors import secp as mon
from ..monitors.install import import_all
from .common import call

SELFTESTS = ["secp", "params", "scalar_mul"]
DECIDING = ["M-secp.add", "M-secp.multiply", "M-secp.privtopub", "B-secp.constants"]
RULE = ("cases = calls of secp256k1 add / multiply / privtopub on the real module, each judged by monitors wrapped around the "
        "public and the internal Jacobian functions against an affine model (pv.model.ec) and, where importable, OpenSSL for k*G; "
        "real curve: points kG, pairs incl. Q=P, Q=-P, identity operands, scalars incl. 0, N, N+-1, 2N+k, negatives, up to 512 bits; "
        "W4: the module's constants P,N,A,B,G rebound to small prime-order curves (A=0 and A!=0) and every ordered pair and every "
        "scalar in [-2N-1, 2N+1] enumerated through the unchanged functions; distinct = distinct (function, operands); "
        "non-trivial = operands other than the suite's single key (0x79be..f89)")
ASSUMPTIONS = ["SEC 2 constants in pv.model.params are transcribed correctly (checked: primality, G on curve, N*G = O, OpenSSL agreement)"]
P, N = MS.P, MS.N


def shards(tier):
    return 8 if tier == "quick" else 16


def required_classes(tier):
    return ["add:generic", "add:P=Q", "add:P=-Q", "add:identity", "multiply:n=0", "multiply:n<0", "multiply:n>=N", "multiply:random", "privtopub:window-around-N", "privtopub:key>=N", "multiply:bit-pattern", "multiply:int-subclass", "soak:distinct-scalars", "multiply:endomorphism-eigenvalue", "multiply:special-prefix", "add:near-x", "inv:small-and-structured", "multiply:hash-colliding", "add:shared-coordinate", "add:hash-colliding",
            "privtopub", "W4:pairs", "W4:scalars", "constants"]


def small_prime_order_curves(pmax, per_p=6):
    """[(P, A, B, N, G)] with prime group order, G any non-identity point."""
    out = []
    for p in range(5, pmax + 1):
        if not is_prime(p):
            continue
        found = 0
        for A in (0, 1, 2, p - 3):
            for B in range(1, p):
                if (4 * A ** 3 + 27 * B ** 2) % p == 0:
                    continue
                E = Curve(Fld(p), A, B)
                pts = E.all_points()
                n = len(pts)
                if n >= 5 and is_prime(n):
                    out.append((p, A, B, n, pts[1], pts))
                    found += 1
                    if found >= per_p:
                        break
            if found >= per_p:
                break
    return out


def real_curve(rec, s):
    rng = rec.rng
    quick = rec.tier == "quick"
    G = (MS.SECP_GX if hasattr(MS, "SECP_GX") else params.SECP_GX, params.SECP_GY)
    # constants (compared with SEC 2 literals in the model, not with themselves)
    if rec.shard == 0:
        rec.case("constants", None, nontrivial=False)
        for name, exp in (("P", params.SECP_P), ("N", params.SECP_N), ("A", 0), ("B", 7), ("Gx", params.SECP_GX), ("Gy", params.SECP_GY),
                          ("G", (params.SECP_GX, params.SECP_GY))):
            got = getattr(s, name, None)
            rec.check("B-secp.constants", got == exp, "constants", "secp256k1.%s is not the SEC 2 value" % name,
                      case={"fn": "constant", "name": name}, facts={"fn": "constant", "name": name}, expected=exp, observed=got)
    ks = [1, 2, 3, 4, 5, N - 1, N - 2, (N - 1) // 2, (N + 1) // 2] + [rng.randrange(1, N) for _ in range(8 if quick else 60)] + [1 << k for k in (8, 64, 128, 255)]
    mdl = {k: MS.from_pt(MS.mul_g(k)) for k in ks}
    pts = list(mdl.values())
    i = 0
    # pairs
    pairs = []
    for a in ks:
        pairs.append(("add:P=Q", mdl[a], mdl[a]))
        pairs.append(("add:P=-Q", mdl[a], (mdl[a][0], P - mdl[a][1])))
        pairs.append(("add:identity", mdl[a], (0, 0)))
        pairs.append(("add:identity", (0, 0), mdl[a]))
        for _ in range(3):
            pairs.append(("add:generic", mdl[a], rng.choice(pts)))
    pairs.append(("add:identity", (0, 0), (0, 0)))
    # distinct points sharing a coordinate (equal y, x times a cube root of unity) and points whose coordinates / differences are
    # distinct integers with equal hash() (they differ by a multiple of 2^61 - 1)
    from . import curvegen as CG
    beta = CG.cube_root_of_unity(P)
    mvals = list(mdl.values())
    for a in range(min(3, len(mvals))):
        x_, y_ = mvals[a]
        pairs.append(("add:shared-coordinate", (x_, y_), (x_ * beta % P, y_)))
        pairs.append(("add:shared-coordinate", (x_ * beta * beta % P, y_), (x_, y_)))
    A_, B_, C_ = mvals[0], mvals[1], mvals[2]
    d_ = (B_[0] - A_[0]) % P
    for k_ in range(1, 60):
        xd = (C_[0] + d_ + k_ * CG.M61) % P
        lift = MS.E.lift_x((xd,))
        if lift and d_ + k_ * CG.M61 < P:
            pairs.append(("add:hash-colliding", A_, B_))
            pairs.append(("add:hash-colliding", C_, (lift[0][0][0], lift[0][1][0])))
            break
    # operands whose x-coordinates differ by a small integer (the slope denominator is then a small number), both signs
    for a_ in mvals[:3]:
        found = 0
        for delta in list(range(1, 60)) + list(range(-1, -60, -1)):
            lift = MS.E.lift_x(((a_[0] + delta) % P,))
            if lift:
                pairs.append(("add:near-x", a_, (lift[0][0][0], lift[0][1][0])))
                pairs.append(("add:near-x", (lift[1][0][0], lift[1][1][0]) if len(lift) > 1 else (lift[0][0][0], lift[0][1][0]), a_))
                found += 1
                if found >= 8:
                    break
    for cls, a, b in pairs:
        i += 1
        if not rec.mine(i):
            continue
        if cls == "add:generic" and (a[0] == b[0]):
            cls = "add:P=Q" if a == b else "add:P=-Q"
        rec.case(cls, ("add", a, b), sample={"fn": "add", "a": a, "b": b})
        call(s.add, a, b)
    # the helpers the public functions are built on, on small and structured arguments (they are public names of the module too)
    for a_ in list(range(0, 40)) + [P - k for k in range(1, 12)] + [1 << k for k in (8, 31, 32, 52, 53, 54, 63, 64, 128, 255)] + [(1 << 53) + 1, (1 << 64) - 1]:
        i += 1
        if rec.mine(i):
            rec.case("inv:small-and-structured", ("inv", a_), sample={"fn": "inv", "a": a_} if a_ < 3 else None)
            call(s.inv, a_, P)
            call(s.inv, a_, N)
            gx, gy = mvals[0]
            z_ = a_ % P
            if z_:
                call(s.from_jacobian, (gx * z_ * z_ % P, gy * z_ * z_ * z_ % P, z_))
    # scalars
    CG_M61 = (1 << 61) - 1

    def scalars():
        yield "multiply:n=0", 0
        for n in (1, 2, 3, N - 1):
            yield "multiply:small/N-1", n
        for n in (N, N + 1, 2 * N, 2 * N + 5, 3 * N - 1, N * N + 7):
            yield "multiply:n>=N", n
        for n in (-1, -2, -N, -N - 1, -N + 1, -(1 << 300) - 3):
            yield "multiply:n<0", n
        for n in CG.endo_scalars(N):
            yield "multiply:endomorphism-eigenvalue", n
        for n in CG.ladder_special_scalars(N, rng, 6 if quick else 60):
            yield "multiply:special-prefix", n
            yield "multiply:special-prefix", -n
        from .common import IntSub, bit_patterns
        for n in bit_patterns(256, rng, 3 if quick else 12):
            yield "multiply:bit-pattern", n
        yield "multiply:int-subclass", IntSub(rng.getrandbits(255))
        yield "multiply:int-subclass", IntSub(N + 3)
        yield "multiply:int-subclass", IntSub(-5)
        for n in list(range(4, 40)) + [N - k for k in range(2, 12)]:
            yield "multiply:small/N-1", n
        n0 = rng.getrandbits(250)
        for n in (n0, n0 + CG_M61, n0 + 7 * CG_M61, n0):
            yield "multiply:hash-colliding", n
        for _ in range(6 if quick else 40):
            yield "multiply:random", rng.getrandbits(rng.choice([64, 255, 256, 257, 384, 512]))
            yield "multiply:n<0", -rng.getrandbits(rng.choice([64, 256, 512]))
    for pt in pts[: (6 if quick else 20)] + [(0, 0)]:
        for cls, n in scalars():
            i += 1
            if not rec.mine(i):
                continue
            rec.case(cls, ("mul", pt, n), sample={"fn": "multiply", "point": pt, "n": n})
            call(s.multiply, pt, n)
    # soak: distinct scalars and distinct inverses beyond any bounded table, first ones re-probed
    if rec.shard == 2 or not quick:
        from .common import soak_size, soak_then_reprobe
        Gp = mvals[0]
        first = [rng.getrandbits(256) for _ in range(3)]

        def distinct_calls():
            j = 0
            while True:
                j += 1
                n_ = (0x9E3779B97F4A7C15 * j + (j << 130) + 12345) % N
                if j <= 1300 or j % 16 == 0:
                    yield (lambda n_=n_: (call(s.multiply, Gp, n_), call(s.inv, n_, P), call(s.inv, n_ + 1, N)))
                else:
                    yield (lambda n_=n_: (call(s.inv, n_, P), call(s.inv, n_ + 1, N)))
        soak_then_reprobe(rec, "distinct-scalars", [lambda n_=n_: (call(s.multiply, Gp, n_), call(s.inv, n_ % P or 1, P), call(s.privtopub, (n_ % N or 1).to_bytes(32, "big"))) for n_ in first],
                          distinct_calls(), soak_size(["py_ecc.secp256k1.secp256k1"]))
    else:
        rec.case("soak:distinct-scalars", None, nontrivial=False)
    # privtopub
    try:
        from cryptography.hazmat.primitives.asymmetric import ec as cec
    except ImportError:
        cec = None
        rec.notes["openssl_oracle"] = "cryptography not importable: skipped"
    window = list(range(N - 40, N + 1200)) if (rec.shard == 3 or not quick) else []
    extra = [N, N + 1, N + 2, (1 << 256) - 1, (1 << 256) - 2, (1 << 255), N + (1 << 128) % 1000] + [rng.randrange(N, 1 << 256) for _ in range(4)]
    if window:
        rec.case("privtopub:window-around-N", None, nontrivial=False)
        for d in window:
            call(s.privtopub, d.to_bytes(32, "big"))
    else:
        rec.case("privtopub:window-around-N", None, nontrivial=False)
    for d in extra:
        rec.case("privtopub:key>=N", ("privN", d))
        call(s.privtopub, d.to_bytes(32, "big"))
    for d in [1, 2, N - 1, N - 2] + [rng.randrange(1, N) for _ in range(10 if quick else 100)]:
        i += 1
        if not rec.mine(i):
            continue
        priv = d.to_bytes(32, "big")
        rec.case("privtopub", ("priv", priv), nontrivial=d != 0x79BE667EF9DCBBAC55A06295CE870B07029BFCDB2DCE28D959F2815B16F81798 % N,
                 sample={"fn": "privtopub", "priv": priv})
        st, pub = call(s.privtopub, priv)
        if cec is not None and st == "ok":
            nums = cec.derive_private_key(d, cec.SECP256K1()).public_key().public_numbers()
            rec.check("B-secp.openssl", tuple(pub) == (nums.x, nums.y), "privtopub", "privtopub differs from OpenSSL", case={"fn": "privtopub", "priv": priv},
                      facts={"fn": "privtopub", "kind": "openssl"})


def w4(rec, s):
    quick = rec.tier == "quick"
    curves = small_prime_order_curves(43 if quick else 211, per_p=4 if quick else 6)
    saved = {k: getattr(s, k) for k in ("P", "N", "A", "B", "Gx", "Gy", "G")}
    n_curves = 0
    try:
        for ci, (p, A, B, n, g, pts) in enumerate(curves):
            if not rec.mine(ci):
                continue
            s.P, s.N, s.A, s.B = p, n, A, B
            s.Gx, s.Gy = g[0][0], g[1][0]
            s.G = (s.Gx, s.Gy)
            ctx = mon.Ctx(p, A, B, n, g)
            mon.set_ctx(ctx)
            if not mon.substitution_effective(s, ctx):
                rec.unavailable.append("W4: rebinding secp256k1 module constants had no effect for curve p=%d A=%d B=%d" % (p, A, B))
                for c_ in ("W4:pairs", "W4:scalars", "W4:A!=0"):
                    rec.waive(c_, "the module does not follow its constants when they are rebound (tables derived at import?)")
                continue
            n_curves += 1
            lib_pts = [(0, 0) if q is None else (q[0][0], q[1][0]) for q in pts]
            for a in lib_pts:
                for b in lib_pts:
                    call(s.add, a, b)
            rec.classes["W4:pairs"] += len(lib_pts) ** 2
            rec.count_distinct(len(lib_pts) ** 2)
            cnt = 0
            for a in lib_pts:
                for k in range(-2 * n - 1, 2 * n + 2):
                    call(s.multiply, a, k)
                    cnt += 1
            rec.classes["W4:scalars"] += cnt
            rec.count_distinct(cnt)
            rec.exhaustive_space("secp256k1 code on y^2=x^3+%dx+%d over GF(%d), order %d: all ordered pairs, all scalars in [-2N-1,2N+1] for every point" % (A, B, p, n), len(lib_pts) ** 2 + cnt)
            if len(rec.samples) < 10:
                rec.samples.append({"class": "W4", "case": {"P": p, "A": A, "B": B, "N": n, "G": [s.Gx, s.Gy], "pairs": len(lib_pts) ** 2, "multiplies": cnt}})
    finally:
        for k, v in saved.items():
            setattr(s, k, v)
        mon.set_ctx(mon.Ctx(MS.P, 0, 7, MS.N, MS.G))
    rec.notes.setdefault("W4_curves_shard%d" % rec.shard, n_curves)


def MS_pt(t, p):
    if t[0] % p == 0 and t[1] % p == 0:
        return None
    return ((t[0] % p,), (t[1] % p,))


def run(rec):
    import_all()
    import py_ecc.secp256k1.secp256k1 as s
    mon.install()
    real_curve(rec, s)
    w4(rec, s)


def replay(rec, case):
    import_all()
    import py_ecc.secp256k1.secp256k1 as s
    mon.install()
    fn = case["fn"]
    if fn == "add":
        call(s.add, case["a"], case["b"])
    elif fn == "multiply":
        call(s.multiply, case["a"], case["n"])
    elif fn == "privtopub":
        call(s.privtopub, case["priv"])
    elif fn in ("jacobian_add",):
        call(s.jacobian_add, case["p"], case["q"])
    elif fn == "jacobian_double":
        call(s.jacobian_double, case["p"])
    elif fn == "jacobian_multiply":
        call(s.jacobian_multiply, case["p"], case["n"])
    elif fn == "from_jacobian":
        call(s.from_jacobian, case["p"])
    elif fn == "constant":
        real_curve_constants_only(rec, s)


def real_curve_constants_only(rec, s):
    for name, exp in (("P", params.SECP_P), ("N", params.SECP_N), ("A", 0), ("B", 7), ("Gx", params.SECP_GX), ("Gy", params.SECP_GY)):
        rec.check("B-secp.constants", getattr(s, name, None) == exp, "constants", "secp256k1.%s is not the SEC 2 value" % name,
                  facts={"fn": "constant", "name": name})
