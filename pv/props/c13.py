"""C13 — projective/Jacobian formulas equal the affine law on every control path."""
from __future__ import annotations

import itertools

from ..model import params, secp as MS
from ..model.gf import Fld, find_irreducible, is_prime
from ..monitors import curve as cmon
from ..monitors import secp as smon
from ..monitors.install import import_all
from . import curvegen as CG
from . import fieldgen as FG
from .common import call

SELFTESTS = ["fields", "scalar_mul", "secp"]
DECIDING = ["M-curve.add", "M-curve.double", "M-curve.neg", "M-curve.eq", "M-curve.on_curve", "M-line", "M-secp.jadd", "M-secp.jdouble", "B-rep-independence"]
RULE = ("cases = calls of the optimized modules' add/double/neg/eq/is_on_curve/linefunc and secp256k1's jacobian_add/jacobian_double on "
        "ARBITRARY coordinate triples (not restricted to curve points), each judged by a monitor wrapped around the function: the affine image "
        "(x/z, y/z) resp. (x/z^2, y/z^3) of the result must equal the affine chord/tangent/vertical construction (resp. affine line function) on "
        "the affine images of the operands, computed with pv.model; every control path is driven deliberately (generic, P=Q through add, P=-Q, "
        "each operand infinite in the representatives (1,1,0), (0,1,0), (0,0,0), (x,y,0); secp: y=0 marker, U1=U2 with S1=S2 / S1!=S2) and "
        "each affine input is presented in two different scalings whose results must represent the same point; fields: both real primes with "
        "FQ, FQ2, FQ12 coordinates, six other primes of 5..256 bits, and exhaustively all pairs of projective triples over GF(5), GF(7) "
        "(thorough: also GF(11); GF(13) and FQ2 over GF(5) only with PV_C13_HUGE=1); random evaluation decides each path's polynomial identity up to Schwartz-Zippel error "
        "<= d/q (d <= 40, q >= 2^254 on the real fields); distinct = distinct (module, function, coordinates); non-trivial = every case "
        "with z != 1 or operands that are not small multiples of a generator")
ASSUMPTIONS = ["'any representative of infinity' = any triple with z = 0 (optimized modules) / y = 0 (secp256k1's marker); line functions are defined for finite operands only",
               "operand pairs with equal x and y neither equal nor opposite have no affine sum and are skipped"]
OPT = ["opt.bn128", "opt.bls12_381"]
PATHS = ["generic", "P=Q", "P=-Q", "identity-operand"]


def shards(tier):
    return 16


def required_classes(tier):
    out = ["exhaustive:GF(5)", "exhaustive:GF(7)", "other-primes", "FQ2-coords", "FQ12-coords", "secp:A!=0", "secp:exhaustive", "rep-independence", "on_curve:on", "on_curve:off"]
    for mk in OPT:
        for p in PATHS:
            out.append("%s.add:%s" % (mk, p))
        for p in ("chord", "tangent", "vertical"):
            out.append("%s.linefunc:%s" % (mk, p))
        out += ["%s.eq:both-inf" % mk, "%s.eq:one-inf" % mk, "%s.eq:finite" % mk, "%s.double:identity" % mk]
    for p in PATHS:
        out.append("secp.jacobian_add:%s" % p)
    out += ["secp.jacobian_double:identity", "secp.jacobian_double:finite", "secp:identity-result-fed-back", "opt.bn128.linefunc:mixed-sparsity", "opt.bls12_381.linefunc:mixed-sparsity", "secp.jacobian_add:equal-y", "opt.bn128.add:equal-y", "opt.bls12_381.add:equal-y"]
    return out


def rand_aff(F, rng):
    return (F.rand(rng), F.rand(rng))


def drive_module(rec, modkey, classes, F, rng, n, tag, b_lib=None):
    """Random arbitrary-coordinate cases on one optimized module over field F."""
    c, pm, _ = CG.lib(modkey)
    deg = F.k

    def L(Pt, scale=True, inf_rep=None):
        return CG.to_lib(modkey, Pt, deg, rng, scale=CG.rand_scale(F, rng) if scale else None, inf_rep=inf_rep, classes=classes, fq_coeffs=(classes is None and deg <= 2 and rng.random() < 0.1))

    def both(fn, mk_args, what):
        """call fn on two independently scaled presentations; results must represent the same point"""
        r1 = call(fn, *mk_args())
        r2 = call(fn, *mk_args())
        rec.case("rep-independence", None, nontrivial=False)
        if r1[0] == "ok" and r2[0] == "ok":
            if isinstance(r1[1], bool) or isinstance(r2[1], bool):
                same = r1[1] == r2[1]
            else:
                same = cmon.aff(r1[1], "opt")[1] == cmon.aff(r2[1], "opt")[1]
            rec.check("B-rep-independence", same, tag, "%s.%s: result depends on the representative supplied" % (modkey, what),
                      case={"module": modkey, "fn": what}, facts={"module": modkey, "fn": what, "kind": "rep-independence"})

    for j in range(n):
        P, Q = rand_aff(F, rng), rand_aff(F, rng)
        T = rand_aff(F, rng)
        path = PATHS[j % 4]
        if path == "P=Q":
            Q = P
        elif path == "P=-Q":
            Q = (P[0], F.neg(P[1]))
        if path == "generic" and j % 12 == 0:
            Q = (Q[0], P[1])                      # distinct points with EQUAL y (different x): still the generic chord
            rec.case("%s.add:equal-y" % modkey, None, nontrivial=False)
        rep1 = CG.INF_REPS[(j // 4) % 4]
        rep2 = CG.INF_REPS[(j // 16) % 4]
        if path == "identity-operand":
            which = (j // 4) % 3
            mk = (lambda: (L(None, inf_rep=rep1), L(Q))) if which == 0 else (lambda: (L(P), L(None, inf_rep=rep1))) if which == 1 else (lambda: (L(None, inf_rep=rep1), L(None, inf_rep=rep2)))
        else:
            mk = lambda: (L(P), L(Q))
        rec.case("%s.add:%s" % (modkey, path), (modkey, "add", F.p, P, Q, path, j), sample={"module": modkey, "fn": "add", "path": path, "field": "GF(p^%d), p %d bits" % (F.k, F.p.bit_length()), "P": P, "Q": Q})
        both(c.add, mk, "add")
        both(c.eq, mk, "eq")
        both(c.double, lambda: (mk()[0],), "double")
        both(c.neg, lambda: (mk()[0],), "neg")
        if path == "identity-operand":
            rec.case("%s.double:identity" % modkey, None, nontrivial=False)
            call(c.double, L(None, inf_rep=rep1))
            call(c.eq, L(None, inf_rep=rep1), L(None, inf_rep=rep2))
            rec.case("%s.eq:both-inf" % modkey, None, nontrivial=False)
            call(c.eq, L(None, inf_rep=rep1), L(P))
            call(c.eq, L(P), L(None, inf_rep=rep2))
            rec.case("%s.eq:one-inf" % modkey, None, nontrivial=False)
        else:
            rec.case("%s.eq:finite" % modkey, None, nontrivial=False)
            call(c.eq, L(P), L(P))
            # line function: chord / tangent / vertical at an arbitrary finite T
            lp = {"generic": "chord", "P=Q": "tangent", "P=-Q": "vertical"}[path]
            rec.case("%s.linefunc:%s" % (modkey, lp), (modkey, "line", F.p, P, Q, T))
            call(pm.linefunc, L(P), L(Q), L(T))
            call(pm.linefunc, L(P), L(Q), L(P))          # the line passes through P
            if deg > 1 and j % 3 == 0:
                # operands assembled COORDINATE BY COORDINATE from value pools: subfield constants, general elements, one non-constant coefficient
                def coord(kind):
                    if kind == 0:
                        return (rng.randrange(1, F.p),) + (0,) * (deg - 1)
                    if kind == 1:
                        return F.rand(rng)
                    t_ = [0] * deg
                    t_[rng.randrange(1, deg)] = rng.randrange(1, F.p)
                    t_[0] = rng.randrange(F.p)
                    return tuple(t_)
                for kinds in ((0, 0, 1), (0, 0, 2), (0, 1, 0), (1, 0, 0), (2, 2, 0), (0, 2, 1)):
                    tr = tuple(CG.mk_el(classes[deg], coord(k_)) for k_ in kinds)
                    rec.case("%s.linefunc:mixed-sparsity" % modkey, None, nontrivial=False)
                    call(pm.linefunc, L(P), L(Q), tr)
                    call(pm.linefunc, tr, L(Q), L(T))
                    call(c.add, tr, L(Q))
                    call(c.double, tr)
                    call(c.eq, tr, tr)
        # curve membership: choose b so that P is on the curve, then perturb
        bP = F.sub(F.mul(P[1], P[1]), F.mul(F.mul(P[0], P[0]), P[0]))
        bl = CG.mk_el(classes[deg], bP)
        rec.case("on_curve:on", None, nontrivial=False)
        both(c.is_on_curve, lambda: (L(P), bl), "is_on_curve")
        rec.case("on_curve:off", None, nontrivial=False)
        call(c.is_on_curve, L((P[0], F.add(P[1], F.one))), bl)
        call(c.is_on_curve, L(None, inf_rep=rep1), bl)


def exhaustive_small(rec, modkey, p, quick, mc=None):
    c, pm, _ = CG.lib(modkey)
    rng = rec.rng
    cls, F = FG.adhoc_class("opt", p, mc)
    classes = {F.k: cls}
    els = [tuple(e) for e in F.all_elements()]
    triples = [(x, y, z) for x in els for y in els for z in els]
    objs = {t: tuple(CG.mk_el(cls, v) for v in t) for t in triples}
    n = 0
    judged0 = rec.monitors["M-curve.add"]
    for t1 in triples:
        a = objs[t1]
        call(c.double, a)
        call(c.neg, a)
        for t2 in triples:
            call(c.add, a, objs[t2])
            n += 1
            if (n % 5) == 0:
                call(c.eq, a, objs[t2])
    # line functions and membership on a sample (three operands: the full cube is too large)
    fin = [t for t in triples if any(t[2])]
    for _ in range(3000 if quick else 30000):
        t1, t2, t3 = rng.choice(fin), rng.choice(fin), rng.choice(fin)
        call(pm.linefunc, objs[t1], objs[t2], objs[t3])
        call(pm.linefunc, objs[t1], objs[t1], objs[t3])
        call(c.is_on_curve, objs[rng.choice(triples)], CG.mk_el(cls, rng.choice(els)))
    tag = "exhaustive:GF(%d)" % p if mc is None else "exhaustive:GF(%d^2)" % p
    rec.classes[tag] += n
    # distinct cases = pairs the oracle actually judged (pairs with equal x and unrelated y have no affine sum and are skipped)
    rec.count_distinct(rec.monitors["M-curve.add"] - judged0)
    rec.exhaustive_space("%s add on every ordered pair of projective triples over %s (all scalings, all z = 0 representatives); double/neg on every triple" % (modkey, tag[11:]), n)


def secp_part(rec, quick, do_exh):
    import py_ecc.secp256k1.secp256k1 as s
    rng = rec.rng
    P = MS.P
    F = Fld(P)

    def jac(Pt, zfix=None):
        if Pt is None:
            return rng.choice([(0, 0, 1), (0, 0, 0), (rng.randrange(P), 0, rng.randrange(1, P)), (rng.randrange(P), 0, 0)])
        z = zfix or rng.randrange(1, P)
        return (Pt[0][0] * z * z % P, Pt[1][0] * z * z * z % P, z)
    for j in range((600 if quick else 20000) if not do_exh else 0):
        A, B = (F.rand(rng), F.rand(rng)), (F.rand(rng), F.rand(rng))
        if A[1] == (0,) or B[1] == (0,):
            continue
        path = PATHS[j % 4]
        if path == "P=Q":
            B = A
        elif path == "P=-Q":
            B = (A[0], F.neg(A[1]))
        elif path == "generic" and j % 12 == 0:
            B = (B[0], A[1])                      # equal y, different x
            rec.case("secp.jacobian_add:equal-y", None, nontrivial=False)
        elif path == "identity-operand":
            if (j // 4) % 3 == 0:
                A = None
            elif (j // 4) % 3 == 1:
                B = None
            else:
                A = B = None
        rec.case("secp.jacobian_add:" + path, ("secp", "jadd", A, B, j), sample={"fn": "jacobian_add", "path": path, "P": A, "Q": B})
        r1 = call(s.jacobian_add, jac(A), jac(B))
        r2 = call(s.jacobian_add, jac(A), jac(B))
        if r1[0] == "ok" and r2[0] == "ok":
            rec.case("rep-independence", None, nontrivial=False)
            rec.check("B-rep-independence", smon.jac_aff(r1[1]) == smon.jac_aff(r2[1]), "secp", "jacobian_add: result depends on the representative",
                      case={"fn": "jacobian_add"}, facts={"module": "secp256k1", "fn": "jacobian_add", "kind": "rep-independence"})
        rec.case("secp.jacobian_double:" + ("identity" if A is None else "finite"), None, nontrivial=False)
        rd = call(s.jacobian_double, jac(A))
        call(s.from_jacobian, jac(A))
        # closure: whatever the functions return for the identity must itself act as the identity when fed back
        for r in (r1, rd):
            if r[0] == "ok" and smon.jac_aff(r[1]) is None:
                Qf = (F.rand(rng), F.rand(rng))
                if Qf[1] != (0,):
                    rec.case("secp:identity-result-fed-back", None, nontrivial=False)
                    call(s.jacobian_add, r[1], jac(Qf))
                    call(s.jacobian_add, jac(Qf), r[1])
                    call(s.jacobian_double, r[1])
    # W4: A != 0 and exhaustive small fields (module constants rebound)
    saved = {k: getattr(s, k) for k in ("P", "N", "A", "B", "Gx", "Gy", "G")}
    try:
        from .c18 import small_prime_order_curves
        curves = [cv for cv in small_prime_order_curves(23 if quick else 61, per_p=3) if cv[1] != 0]
        for ci, (p, A_, B_, n, g, pts) in enumerate(curves):
            if ci % 2 != (0 if do_exh else 1):
                continue
            s.P, s.N, s.A, s.B, s.Gx, s.Gy, s.G = p, n, A_, B_, g[0][0], g[1][0], (g[0][0], g[1][0])
            smon.set_ctx(smon.Ctx(p, A_, B_, n, g))
            if not smon.substitution_effective(s, smon.CTX):
                rec.unavailable.append("W4: rebinding secp256k1 constants had no effect (p=%d A=%d)" % (p, A_))
                for c_ in ("secp:A!=0", "secp:exhaustive"):
                    rec.waive(c_, "the module does not follow its constants when they are rebound")
                continue
            trip = [(x, y, z) for x in range(p) for y in range(p) for z in range(p) if not (z == 0 and y != 0)]
            if p <= (11 if quick else 23):
                cnt = 0
                j0 = rec.monitors["M-secp.jadd"]
                fin = [t for t in trip if t[1] and t[2]]
                for t1 in trip:
                    rd = call(s.jacobian_double, t1)
                    if rd[0] == "ok" and smon.jac_aff(rd[1]) is None:
                        tq = fin[cnt % len(fin)]
                        call(s.jacobian_add, rd[1], tq)
                        call(s.jacobian_add, tq, rd[1])
                    for t2 in trip:
                        call(s.jacobian_add, t1, t2)
                        cnt += 1
                rec.classes["secp:exhaustive"] += cnt
                rec.count_distinct(rec.monitors["M-secp.jadd"] - j0)
                rec.exhaustive_space("secp256k1 jacobian_add on every ordered pair of Jacobian triples over GF(%d) with A=%d (y=0 identity markers included)" % (p, A_), cnt)
            cnt = 0
            j0 = rec.monitors["M-secp.jadd"]
            for _ in range(1500 if quick else 20000):
                call(s.jacobian_add, rng.choice(trip), rng.choice(trip))
                call(s.jacobian_double, rng.choice(trip))
                cnt += 1
            rec.classes["secp:A!=0"] += cnt
            rec.count_distinct(min(cnt, rec.monitors["M-secp.jadd"] - j0) // 2)      # random draws from a small space: count conservatively
    finally:
        for k, v in saved.items():
            setattr(s, k, v)
        smon.set_ctx(smon.Ctx(MS.P, 0, 7, MS.N, MS.G))


def run(rec):
    import_all()
    cmon.install(which=OPT, every_outer=1, every_inner=1, fns=["add", "double", "neg", "eq", "is_on_curve", "linefunc"])
    smon.install(["jdouble", "jadd", "fromjac", "inv"])
    rng = rec.rng
    quick = rec.tier == "quick"
    tasks = []
    for modkey in OPT:
        S = CG.suite_of(modkey)
        fc = CG.field_classes(modkey)
        tasks.append(("real1", modkey, fc, S.F1, 200 if quick else 4000, "real:FQ"))
        tasks.append(("real2", modkey, fc, S.F2, 120 if quick else 2500, "FQ2-coords"))
        tasks.append(("real12", modkey, fc, S.F12, 16 if quick else 300, "FQ12-coords"))
        for bits in (5, 13, 31, 64, 127, 256):
            tasks.append(("other", modkey, None, bits, 60 if quick else 1000, "other-primes"))
        # thorough: GF(11) on top of GF(5), GF(7).  GF(13) and FQ2 over GF(5) (their shards took 78 min resp. did not finish in 2 h 40 min
        # in thorough run #6) are available with PV_C13_HUGE=1 only: a thorough command has to come back
        huge = __import__("os").environ.get("PV_C13_HUGE") == "1"
        for p in ((5, 7) if quick else ((5, 7, 11, 13) if huge else (5, 7, 11))):
            tasks.append(("exh", modkey, None, p, 0, ""))
        if not quick and huge:
            tasks.append(("exh2", modkey, None, 5, 0, ""))
    tasks.append(("secp", None, None, None, 0, ""))
    tasks.append(("secp-exh", None, None, None, 0, ""))
    for ti, t in enumerate(tasks):
        if not rec.mine(ti):
            continue
        kind, modkey, fc, F, n, tag = t
        if kind.startswith("real"):
            rec.case(tag, None, nontrivial=False)
            drive_module(rec, modkey, fc, F, rng, n, tag)
        elif kind == "other":
            p = next(q for q in range((1 << F) - 1, 0, -2) if is_prime(q) and q > 3)
            cls, Fm = FG.adhoc_class("opt", p)
            rec.case(tag, None, nontrivial=False)
            drive_module(rec, modkey, {1: cls}, Fm, rng, n, tag)
            if F <= 31:
                mc = find_irreducible(p, 2, rng)
                cls2, Fm2 = FG.adhoc_class("opt", p, mc)
                drive_module(rec, modkey, {2: cls2}, Fm2, rng, n // 2, tag)
        elif kind == "exh":
            exhaustive_small(rec, modkey, F, quick)
        elif kind == "exh2":
            exhaustive_small(rec, modkey, 5, quick, mc=(2, 0))
        elif kind == "secp":
            secp_part(rec, quick, False)
        elif kind == "secp-exh":
            secp_part(rec, quick, True)


def replay(rec, case):
    from . import c07
    if case.get("fn") in ("jacobian_add", "jacobian_double", "from_jacobian"):
        import_all()
        import py_ecc.secp256k1.secp256k1 as s
        smon.install(["jdouble", "jadd", "fromjac"])
        if case["fn"] == "jacobian_add":
            call(s.jacobian_add, tuple(case["p"]), tuple(case["q"]))
        else:
            call(getattr(s, case["fn"]), tuple(case["p"]))
        return
    import_all()
    cmon.install(which=OPT, every_outer=1, every_inner=1)
    modkey = case.get("module")
    if modkey not in OPT or "p1" not in case and "P1" not in case:
        return
    c, pm, _ = CG.lib(modkey)
    classes = CG.field_classes(modkey)

    def rebuild(raw):
        return tuple(CG.mk_el(classes[len(v)], tuple(v)) for v in raw)
    fn = case["fn"]
    if fn == "linefunc":
        call(pm.linefunc, rebuild(case["P1"]), rebuild(case["P2"]), rebuild(case["T"]))
    elif fn in ("add", "eq"):
        call(getattr(c, fn), rebuild(case["p1"]), rebuild(case["p2"]))
    elif fn == "is_on_curve":
        call(c.is_on_curve, rebuild(case["p1"]), CG.mk_el(classes[len(case["b"])], tuple(case["b"])))
    else:
        call(getattr(c, fn), rebuild(case["p1"]))
