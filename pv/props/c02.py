"""C02 — Verify accepts exactly the canonical signature and nothing else."""
from __future__ import annotations

from ..model import bls as MB
from ..model import params, zcash as Z
from ..monitors import bls as bmon
from ..monitors.install import import_all
from . import curvegen as CG
from .common import call, msg_pool

SELFTESTS = ["fields", "params", "zcash", "h2c", "bls"]
DECIDING = ["M-bls.verify"]
SCOPE = ["M-bls.verify"]
RULE = ("cases = Verify / PopVerify calls on the real ciphersuite classes with a public key whose secret key the harness knows, judged by a monitor "
        "wrapped around the methods with the analytic oracle 'True iff the 96 bytes equal the model's canonical signature sk*H(m) in ZCash "
        "encoding' (BLS signatures are unique), all in pv.model arithmetic. Per base case (suite, sk, m) the candidates are: the canonical "
        "signature; signatures by another key, on another message, under each other suite; a possession proof offered as message signature and "
        "vice versa; AUG signature over the un-prefixed message; sk+-1; -S, 2S; S+T for T of order 13, 23 and of large cofactor order on the "
        "twist (canonical encodings, outside the subgroup); the identity encoding; random subgroup points; single-bit flips (all three flag bits "
        "of both words, byte 48, random positions; thorough: all 768), multi-bit flips, word swaps, truncation/extension. distinct = distinct "
        "(suite, pk, message, candidate); non-trivial = candidate != canonical and decodable, or canonical for key >= 2^80 / non-ASCII message")
ASSUMPTIONS = ["uniqueness of BLS signatures: for a valid key pk = sk*G1 the only accepted 96-byte string is the canonical encoding of sk*H(m)"]
R = params.BLS_R
E2, F2 = params.BLS_E2, params.BLS_FP2
CLASSES = ["noncanonical-coordinate", "canonical", "other-key", "other-message", "other-suite", "pop-as-sig", "sig-as-pop", "aug-unprefixed", "sk+-1", "negated", "doubled", "plus-torsion",
           "identity", "random-subgroup", "bitflip", "flagflip", "multiflip", "wordswap", "length"]


def shards(tier):
    return 16


def required_classes(tier):
    return ["cand:" + c for c in CLASSES] + ["cand:canonical:coordinate-band", "cand:related-message", "soak:valid-public-keys", "suite:custom", "suite:basic", "suite:aug", "suite:pop", "reach:pairing-nonaccept", "reach:subgroup-reject", "reach:decode-reject"]


def run(rec):
    import_all()
    cs = bmon.install(pair_arg=False)
    suites = {"basic": cs.G2Basic, "aug": cs.G2MessageAugmentation, "pop": cs.G2ProofOfPossession}
    names = list(suites)
    rng = rec.rng
    quick = rec.tier == "quick"
    msgs = msg_pool(rng)
    order2 = params.BLS_H2 * R
    tors = {}
    if rec.shard == 9 or not quick:
        soak_keys(rec, cs, suites, rng)
    else:
        rec.case("soak:valid-public-keys", None, nontrivial=False)
    if rec.shard % 4 == 2 or not quick:
        coordinate_band_cases(rec, suites, rng, 3 if quick else 12)
    rec.case("cand:canonical:coordinate-band", None, nontrivial=False)
    custom = bmon.custom_suites(cs)
    ckeys = list(custom)
    nbases = 3 if quick else 36
    for bi in range(nbases + 1):
        if bi == nbases:
            # one more base case on a user-derived suite (another hash function / other tags); the stock suite's signature is a candidate too
            if not ckeys:
                break
            suite = ckeys[rec.shard % len(ckeys)]
            S = custom[suite]
            rec.case("suite:custom", None, nontrivial=False)
        else:
            suite = names[(bi + rec.shard) % 3]
            S = suites[suite]
        sk = rng.choice([1, 2, R - 1, rng.randrange(1, R), rng.randrange(1, R), (1 << rng.randrange(1, 255))])
        m = rng.choice(msgs) if bi % 2 else rng.randbytes(rng.randrange(0, 80))
        pk = bmon.register_key(sk)
        canon = bmon.m_sign(suite, sk, m)
        Spt = Z.dec_g2(canon)
        nt_base = sk >= (1 << 80) or not (len(m) <= 32 and all(32 <= c < 127 for c in m))
        rec.case("suite:" + suite, None, nontrivial=False)

        def offer(cls, cand, nontrivial=True, pop=False):
            rec.case("cand:" + cls, ("v", suite, pk, m, cand, pop), nontrivial=nontrivial,
                     sample={"suite": suite, "candidate": cls, "sk_bits": sk.bit_length(), "msg_len": len(m), "cand_len": len(cand)})
            # where does the model say this candidate stops? (reach evidence)
            if len(cand) == 96 and cand != canon:
                ok, pt = bmon.m_sig_valid(cand)
                rec.case("reach:" + ("pairing-nonaccept" if ok else "subgroup-reject" if pt is not None else "decode-reject"), None, nontrivial=False)
            if pop:
                return call(suites["pop"].PopVerify, pk, cand)
            return call(S.Verify, pk, m, cand)

        # 1. canonical (also what the library's own Sign returns)
        offer("canonical", canon, nontrivial=nt_base)
        st, libsig = call(S.Sign, sk, m)
        if st == "ok" and isinstance(libsig, bytes) and libsig != canon:
            offer("canonical", libsig)                     # library signs differently from the model: C09's finding; here expected False
        # 2-4
        sk2 = rng.randrange(1, R)
        offer("other-key", bmon.m_sign(suite, sk2, m))
        m2 = m + b"\x00" if bi % 2 else (m[:-1] + bytes([m[-1] ^ 1]) if m else b"x")
        offer("other-message", bmon.m_sign(suite, sk, m2))
        # messages RELATED to m: its digest, its hex digest, a prefix (a memo keyed by a digest of the message would confuse them)
        import hashlib as _hl
        if bi % 3 == 0:
            long_m = m + rng.randbytes(300)
            for rel in (_hl.sha256(long_m).digest(), long_m[:32]):
                # first verify the long message's signature, then offer it for the related message
                call(S.Verify, pk, long_m, bmon.m_sign(suite, sk, long_m))
                rec.case("cand:related-message", ("vrel", suite, pk, rel), sample={"suite": suite, "candidate": "signature on a long message offered for its digest / prefix"})
                call(S.Verify, pk, rel, bmon.m_sign(suite, sk, long_m))
                call(S.Verify, pk, rel, bmon.m_sign(suite, sk, rel))
        for other in names:
            if other != suite:
                offer("other-suite", bmon.m_sign(other, sk, m))
        if suite not in names:
            offer("other-suite", bmon.m_sign(bmon.kind_of(suite), sk, m))          # the stock suite of the same kind (SHA-256, standard tags)
        # 5. possession proof vs message signature
        if suite not in names:
            # the remaining candidate classes use the stock tags; group-level and bit-level variants below apply to any suite
            dstx = bmon.sp_of(suite).dst
            Hx = bmon.sp_of(suite).H
            for d in (1, -1):
                skn = (sk + d) % R
                if skn:
                    offer("sk+-1", Z.enc_g2(E2.mul(Z.dec_g2(MB.core_sign(1, MB.augmented(bmon.kind_of(suite), pk, m), dstx, Hx)), skn)))
            offer("negated", Z.enc_g2(E2.neg(Spt)))
            offer("doubled", Z.enc_g2(E2.add(Spt, Spt)))
            offer("identity", Z.enc_g2(None))
            zc = int.from_bytes(canon, "big")
            for b_ in [767, 766, 765, 383, 382, 381] + rng.sample(range(768), 12):
                offer("bitflip", (zc ^ (1 << b_)).to_bytes(96, "big"))
            continue
        prf = bmon.m_pop(sk)
        rec.case("cand:pop-as-sig", ("v", suite, pk, pk, prf), sample={"suite": suite, "candidate": "PopProve(sk) offered to Verify(pk, pk, .)"})
        call(S.Verify, pk, pk, prf)
        offer("sig-as-pop", bmon.m_sign("pop", sk, pk), pop=True)
        if bi == 0:
            offer("canonical", prf, pop=True, nontrivial=nt_base)           # the honest proof (expected True)
        # 6. AUG without the prefix / with the prefix offered to the non-augmenting suites
        unpref = MB.core_sign(sk, m, MB.DST["aug"])
        rec.case("cand:aug-unprefixed", ("v", "aug", pk, m, unpref), sample={"candidate": "sk*H(m, DST_AUG) without the pk prefix offered to AUG.Verify"})
        call(suites["aug"].Verify, pk, m, unpref)
        if suite != "aug":
            offer("aug-unprefixed", MB.core_sign(sk, pk + m, MB.DST[suite]))
        # 7. neighbouring keys
        for d in (1, -1):
            skn = (sk + d) % R
            if skn:
                offer("sk+-1", Z.enc_g2(E2.mul(Z.dec_g2(MB.core_sign(1, MB.augmented(suite, pk, m), MB.DST[suite])), skn)))
        # 8. group-level variants
        offer("negated", Z.enc_g2(E2.neg(Spt)))
        offer("doubled", Z.enc_g2(E2.add(Spt, Spt)))
        for q in ((13, 23, 0) if not quick else ((13, 23, 0)[(bi + rec.shard) % 3],)):
            if q not in tors:
                tors[q] = CG.torsion_point(E2, order2, q, rng) if q else E2.mul(E2.rand_point(rng), R)
            T = tors[q]
            if T is not None:
                offer("plus-torsion", Z.enc_g2(E2.add(Spt, T)))
                if bi == 0:
                    offer("plus-torsion", Z.enc_g2(T))
        offer("identity", Z.enc_g2(None))
        offer("random-subgroup", Z.enc_g2(E2.mul(Spt, rng.randrange(2, R))))
        # 9. bit-level variants
        z = int.from_bytes(canon, "big")
        flagbits = [767, 766, 765, 383, 382, 381]
        for b in flagbits:
            offer("flagflip", (z ^ (1 << b)).to_bytes(96, "big"))
        pos = list(range(768)) if not quick and bi < 2 else [376, 377, 378, 379, 380, 384, 0, 1, 8 * 47, 8 * 48 - 1] + rng.sample(range(768), 24 if quick else 60)
        for b in pos:
            if b in flagbits:
                continue
            offer("bitflip", (z ^ (1 << b)).to_bytes(96, "big"))
        for _ in range(4 if quick else 16):
            zz = z
            for b in rng.sample(range(768), rng.randrange(2, 6)):
                zz ^= 1 << b
            offer("multiflip", zz.to_bytes(96, "big"))
        # the same point with a coordinate not reduced mod p (second word + p always fits in 384 bits; first word only for small x_1)
        z1w, z2w = int.from_bytes(canon[:48], "big"), int.from_bytes(canon[48:], "big")
        offer("noncanonical-coordinate", canon[:48] + (z2w + params.BLS_P).to_bytes(48, "big"))
        if (z1w & Z.M381) + params.BLS_P < (1 << 381):
            offer("noncanonical-coordinate", (z1w + params.BLS_P).to_bytes(48, "big") + canon[48:])
        offer("wordswap", canon[48:] + canon[:48])
        w2 = bytearray(canon[48:] + canon[:48]); w2[0] |= 0x80
        offer("wordswap", bytes(w2))
        offer("wordswap", canon[:48] + canon[:48])
        # 10. wrong lengths (not 96 bytes)
        for cand in (canon[:95], canon + b"\x00", b"\x00" + canon, b"", canon[:48]):
            offer("length", cand)


def coordinate_band_cases(rec, suites, rng, n_each):
    """Honest (key, message, signature) triples in which an ENCODED COORDINATE lies at the edge of the field: the x of the public
    key, or the real or imaginary part of the signature's x, has the same leading octet as the field modulus (0x1a: the band
    [0x1a * 2^376, q), one value in 6 200) or a zero leading octet.  Such triples cannot be chosen, only found: walk sk -> sk + 1
    (the key moves by G1, the signature by H(m)) in the model until the coordinate falls into the band."""
    q = params.BLS_P
    E1m, G1m = params.BLS_E1, params.bls_generators()[0]

    def band(v, which):
        return (v >> 376) == (q >> 376) if which == "top" else (v >> 376) == 0
    names = list(suites)
    found = 0
    for j in range(n_each):
        which = "top" if j % 3 != 2 else "zero"
        # (a) public key
        suite = names[(j + rec.shard) % 3]
        sk = rng.randrange(1, R // 2)
        Pt = E1m.mul(G1m, sk)
        for _ in range(60000):
            if band(Pt[0][0], which):
                break
            sk += 1
            Pt = E1m.add(Pt, G1m)
        else:
            continue
        pk = bmon.register_key(sk)
        m = rng.randbytes(rng.choice([0, 32, 65]))
        rec.case("cand:canonical:coordinate-band", ("band", "pk", suite, sk, m), sample={"suite": suite, "candidate": "canonical signature", "what": "leading octet of the key's x is %s" % ("that of the modulus" if which == "top" else "0x00")})
        call(suites[suite].Verify, pk, m, bmon.m_sign(suite, sk, m))
        found += 1
        # (b) signature (suites whose message point does not depend on the key)
        suite = ("basic", "pop")[(j + rec.shard) % 2]
        m = rng.randbytes(rng.choice([1, 32, 70]))
        Hm = bmon.m_sign_point(suite, 1, m)
        sk = rng.randrange(1, R // 2)
        St = E2.mul(Hm, sk)
        part = j % 2
        for _ in range(60000):
            if band(St[0][part], which):
                break
            sk += 1
            St = E2.add(St, Hm)
        else:
            continue
        pk = bmon.register_key(sk)
        sig = Z.enc_g2(St)
        rec.case("cand:canonical:coordinate-band", ("band", "sig", suite, sk, m), sample={"suite": suite, "candidate": "canonical signature", "what": "leading octet of the %s part of the signature's x is %s" % (("real", "imaginary")[part], "that of the modulus" if which == "top" else "0x00")})
        call(suites[suite].Verify, pk, m, sig)
        if suite == "pop":
            call(suites[suite].FastAggregateVerify, [pk], m, sig)
        found += 1
    rec.event("coordinate-band:triples-found", found)


def soak_keys(rec, cs, suites, rng):
    """More distinct valid public keys than a bounded table holds, then the first signer again: the canonical signature must still
    verify and another key's signature must still be refused."""
    import py_ecc.bls.g2_primitives as gp
    from .common import soak_size, soak_then_reprobe
    E1m, G1m = params.BLS_E1, params.bls_generators()[0]
    skA, skB, m = rng.randrange(1, R), rng.randrange(1, R), b"signed before the soak"
    pkA = bmon.register_key(skA)
    bmon.register_key(skB)
    S = suites["basic"]

    def valid_keys():
        Pt = E1m.mul(G1m, rng.randrange(1, R))
        while True:
            Pt = E1m.add(Pt, G1m)
            kb = Z.enc_g1(Pt)
            yield (lambda kb=kb: call(gp.pubkey_to_G1, kb))
    probes = [lambda: call(S.Verify, pkA, m, bmon.m_sign("basic", skA, m)), lambda: call(S.Verify, pkA, m, bmon.m_sign("basic", skB, m)),
              lambda: call(suites["pop"].PopVerify, pkA, bmon.m_pop(skA))]
    soak_then_reprobe(rec, "valid-public-keys", probes, valid_keys(), soak_size(["py_ecc.bls.g2_primitives", "py_ecc.bls.ciphersuites", "py_ecc.bls.point_compression"]))


def replay(rec, case):
    import_all()
    cs = bmon.install(pair_arg=False)
    suites = {"basic": cs.G2Basic, "aug": cs.G2MessageAugmentation, "pop": cs.G2ProofOfPossession}
    pk = case["pk"]
    # the secret key is not part of the recorded call: recover it from small / recorded keys is impossible in general,
    # so replay re-derives it only when the case carries it
    if case.get("sk") is not None:
        bmon.register_key(case["sk"])
    if case["fn"] == "PopVerify":
        call(suites["pop"].PopVerify, pk, case["sig"])
    else:
        call(suites[case["suite"]].Verify, pk, case["msg"], case["sig"])
