"""Element / operand generators and class catalogue for the field properties (C08, C14)."""
from __future__ import annotations

import itertools

from ..model import params
from ..model.gf import Fld, find_irreducible, is_irreducible

CURVES = {"bn128": params.BN_P, "bls12_381": params.BLS_P}
FQ12_MC = {"bn128": (82, 0, 0, 0, 0, 0, -18, 0, 0, 0, 0, 0), "bls12_381": (2, 0, 0, 0, 0, 0, -2, 0, 0, 0, 0, 0)}


def concrete_classes():
    """{(impl, curve, degree): (class, Fld)} for the 12 classes shipped in py_ecc.fields."""
    import py_ecc.fields as f
    out = {}
    for curve, p in CURVES.items():
        for impl, prefix in (("ref", ""), ("opt", "optimized_")):
            out[(impl, curve, 1)] = (getattr(f, "%s%s_FQ" % (prefix, curve)), Fld(p))
            out[(impl, curve, 2)] = (getattr(f, "%s%s_FQ2" % (prefix, curve)), Fld(p, (1, 0)))
            out[(impl, curve, 12)] = (getattr(f, "%s%s_FQ12" % (prefix, curve)), Fld(p, FQ12_MC[curve]))
    return out


def adhoc_class(impl, p, mc=None, tag=""):
    """A field class instantiated with another prime / modulus, through the documented
    extension mechanism (subclass with field_modulus / FQ2_MODULUS_COEFFS / FQ12_MODULUS_COEFFS)."""
    import py_ecc.fields.field_elements as ref
    import py_ecc.fields.optimized_field_elements as opt
    m = ref if impl == "ref" else opt
    if mc is None:
        return type("AdHocFQ_%d%s" % (p, tag), (m.FQ,), {"field_modulus": p}), Fld(p)
    mc = tuple(mc)
    if len(mc) == 2:
        return type("AdHocFQ2_%d%s" % (p, tag), (m.FQ2,), {"field_modulus": p, "FQ2_MODULUS_COEFFS": mc}), Fld(p, mc)
    if len(mc) == 12:
        return type("AdHocFQ12_%d%s" % (p, tag), (m.FQ12,), {"field_modulus": p, "FQ12_MODULUS_COEFFS": mc}), Fld(p, mc)
    raise ValueError("degree %d not offered by the library" % len(mc))


def irreducible_quadratics(p):
    return [mc for mc in itertools.product(range(p), repeat=2) if is_irreducible(mc, p)]


def elements(F, rng, n_random=4):
    """Model element tuples covering the classes named in the property."""
    p, k = F.p, F.k
    out = [F.zero, F.one, F.neg(F.one), (p - 1,) * k, (1,) * k]
    if k > 1:
        for i in (1, k - 1):
            e = [0] * k
            e[i] = rng.randrange(1, p)
            out.append(tuple(e))
        e = [0] * k
        e[0], e[k // 2] = rng.randrange(p), rng.randrange(1, p)
        out.append(tuple(e))                 # two non-zero coefficients (line-function shape)
        out.append((rng.randrange(p),) + (0,) * (k - 1))   # base-field element
    for _ in range(n_random):
        out.append(F.rand(rng))
    return out


def int_operands(p, rng):
    return [0, 1, -1, 2, p, p + 1, p - 1, -p - 3, 3 * p + 5, -3 * p + 7, 1 << 600, -(1 << 600) + 1, rng.randrange(p), -rng.randrange(p)]


def exponents(F, rng, big=True):
    p, q = F.p, F.q
    out = [0, 1, 2, 3, 4, 5, p - 1, p, p + 1]
    if big:
        out += [q - 1, q, q - 2, (q - 1) // 2, rng.getrandbits(rng.choice([300, 800, 1500])), rng.getrandbits(5000) if F.k < 12 else rng.getrandbits(900)]
        if F.k == 2:
            out += [(p * p + 7) // 16, (p * p - 1) // 8]
        # exponents with structured bit patterns: powers of two, 2^k + small, aligned zero words, long runs
        out += [1 << 64, 1 << 128, (1 << 128) + 5, (1 << 64) + (1 << 63), 1 << 255, (1 << 256) - 1, (1 << 192) | 1, (1 << 320) + (1 << 2),
                rng.getrandbits(64) << 128 | rng.getrandbits(64), (rng.getrandbits(60) << 200) | rng.getrandbits(30)]
    return out


def make(cls, v, as_fq=False):
    """Library object from a model tuple."""
    if len(v) == 1 and not hasattr(cls, "degree"):
        return cls(v[0])
    return cls(list(v))


def derived_class(parent, p=None, mc=None, tag=""):
    """A field class derived from another CONCRETE field class (shipped or ad hoc), overriding only the modulus coefficients
    and/or the prime - the other documented way of instantiating the classes.  -> (class, Fld)"""
    attrs = {}
    deg = getattr(parent, "degree", 0) or 1
    if mc is not None:
        attrs["FQ2_MODULUS_COEFFS" if deg == 2 else "FQ12_MODULUS_COEFFS"] = tuple(mc)
    if p is not None:
        attrs["field_modulus"] = p
    cls = type("Derived_%s%s" % (parent.__name__, tag), (parent,), attrs)
    pp = p if p is not None else parent.field_modulus
    if deg == 1:
        return cls, Fld(pp)
    mcc = tuple(mc) if mc is not None else tuple(int(getattr(c, "n", c)) for c in (parent.FQ2_MODULUS_COEFFS if deg == 2 else parent.FQ12_MODULUS_COEFFS))
    return cls, Fld(pp, mcc)
