"""W2 (end-to-end scenarios) and W3 (the repository's own test suite) run under the monitors.

Both are *additional workloads*: they add no oracle of their own, they only produce more
executions of the real code for the monitors that are already installed, with realistic call
sequences (W2) and with the realistic and hostile arguments the upstream authors chose (W3).
Reports from monitors that serve another property are filtered by pv.scope."""
from __future__ import annotations

import glob
import importlib
import os
import sys
import time

from ..model import params
from ..scope import FAMILIES
from .common import call


def install_families(fams):
    for f in fams:
        if f == "bls":
            from ..monitors import bls as m
            m.install(pair_arg=True)
        elif f == "secp":
            from ..monitors import secp as m
            m.install()
        elif f == "secp-j":
            from ..monitors import secp as m
            m.install(["jdouble", "jadd"])
        elif f == "curve":
            from ..monitors import curve as m
            m.install(every_outer=1, every_inner=37)
        elif f == "field":
            from ..monitors import field as m
            m.install(ctor=True, ops=True, every_ctor=7, every_op=3, inner_op=61, inner_ctor=17)
        elif f == "h2c":
            from ..monitors import h2c as m
            m.install()
        elif f == "zcash":
            from ..monitors import zcash as m
            m.install()


# ------------------------------------------------------------------------------------------ W2
def scenarios(rec, which=("validator", "evm", "wallet"), rounds=1):
    rng = rec.rng
    R = params.BLS_R
    if "validator" in which:
        cs = importlib.import_module("py_ecc.bls.ciphersuites")
        for rd in range(rounds):
            for cname in ("G2Basic", "G2MessageAugmentation", "G2ProofOfPossession")[rd % 3:][:1 if rounds < 3 else 3]:
                S = getattr(cs, cname)
                n = 2 + rng.randrange(2)
                rec.case("W2:validator:" + cname, None, nontrivial=False)
                sks = [call(S.KeyGen, rng.randbytes(32), rng.randbytes(rng.choice([0, 8])))[1] for _ in range(n)]
                if not all(isinstance(s, int) for s in sks):
                    continue
                pks = [call(S.SkToPk, sk)[1] for sk in sks]
                msgs = [rng.randbytes(rng.choice([0, 32, 64])) + bytes([i]) for i in range(n)]
                sigs = [call(S.Sign, sk, m)[1] for sk, m in zip(sks, msgs)]
                for pk, m, sg in zip(pks, msgs, sigs):
                    call(S.Verify, pk, m, sg)
                agg = call(S.Aggregate, sigs)[1]
                call(S.AggregateVerify, pks, msgs, agg)
                call(S.AggregateVerify, pks[::-1], msgs, agg)
                if cname == "G2ProofOfPossession":
                    for sk, pk in zip(sks, pks):
                        call(S.PopVerify, pk, call(S.PopProve, sk)[1])
                    common = rng.randbytes(32)
                    fs = [call(S.Sign, sk, common)[1] for sk in sks]
                    call(S.FastAggregateVerify, pks, common, call(S.Aggregate, fs)[1])
                    call(S.FastAggregateVerify, pks[:-1], common, call(S.Aggregate, fs)[1])
    if "evm" in which:
        ob = importlib.import_module("py_ecc.optimized_bn128")
        rb = importlib.import_module("py_ecc.bn128")
        for rd in range(rounds):
            rec.case("W2:evm-precompiles", None, nontrivial=False)
            a, b, s = (rng.randrange(1, params.BN_R) for _ in range(3))
            # ecMul / ecAdd as the EVM precompiles use them (optimized module, then normalize)
            P1 = call(ob.multiply, ob.G1, a)[1]
            P2 = call(ob.multiply, ob.G1, b)[1]
            S_ = call(ob.add, P1, P2)[1]
            call(ob.normalize, S_)
            call(ob.eq, S_, call(ob.multiply, ob.G1, (a + b) % params.BN_R)[1])
            # pairing product check: e(aG1, bG2) * e(-abG1, G2) == 1
            Q = call(ob.multiply, ob.G2, b)[1]
            nab = call(ob.neg, call(ob.multiply, ob.G1, a * b % params.BN_R)[1])[1]
            m1 = call(ob.pairing, Q, P1, final_exponentiate=False)
            m2 = call(ob.pairing, ob.G2, nab, final_exponentiate=False)
            if m1[0] == "ok" and m2[0] == "ok":
                fe = call(ob.final_exponentiate, m1[1] * m2[1])
                rec.event("W2:evm-product-is-one" if fe[0] == "ok" and fe[1] == ob.FQ12.one() else "W2:evm-product-not-one")
            # reference module: small scalars keep it affordable
            call(rb.add, call(rb.multiply, rb.G1, a % 1000 + 2)[1], rb.G1)
            call(rb.double, call(rb.multiply, rb.G2, b % 100 + 2)[1])
    if "wallet" in which:
        sp = importlib.import_module("py_ecc.secp256k1.secp256k1")
        for rd in range(rounds * 3):
            rec.case("W2:wallet", None, nontrivial=False)
            priv = rng.randrange(1, sp.N).to_bytes(32, "big")
            h = rng.randbytes(32)
            pub = call(sp.privtopub, priv)[1]
            sig = call(sp.ecdsa_raw_sign, h, priv)
            if sig[0] == "ok":
                call(sp.ecdsa_raw_recover, h, sig[1])
            call(sp.add, pub, sp.G)
            call(sp.multiply, pub, rng.randrange(-5, 1 << 260))


# ------------------------------------------------------------------------------------------ W3
class _W3Budget(BaseException):
    """Raised from a timer signal inside a repository test that outlives the slice's budget (BaseException: neither the library
    nor the monitors' guards swallow it; pytest records the test as failed and goes on)."""


class _Slice:
    def __init__(self, index, count):
        self.index, self.count = index, count
        self.kept = 0
        self.passed = self.failed = self.skipped = 0
        # W3 is an ATTACHED workload that never decides a verdict alone; under the curve / line monitors a single pairing test costs
        # tens of minutes, so the slice stops starting new tests after a wall-clock budget (what ran is counted in the evidence)
        self.budget_s = float(os.environ.get("PV_W3_BUDGET_S", "900"))
        self.t0 = time.time()
        self.over_budget = 0
        self.abandoned = 0

    def pytest_runtest_setup(self, item):
        if time.time() - self.t0 > self.budget_s:
            self.over_budget += 1
            import pytest
            pytest.skip("W3 wall-clock budget of this shard used up")

    def pytest_runtest_call(self, item):
        # a test already running when the budget ends gets a grace period, then is abandoned (its outcome decides nothing)
        import signal
        left = self.budget_s + float(os.environ.get("PV_W3_GRACE_S", "600")) - (time.time() - self.t0)

        def stop(signum, frame):
            self.abandoned += 1
            raise _W3Budget("W3 budget and grace period used up")
        try:
            signal.signal(signal.SIGALRM, stop)
            signal.setitimer(signal.ITIMER_REAL, max(1.0, left))
        except (ValueError, OSError):
            pass

    def pytest_runtest_teardown(self, item):
        import signal
        try:
            signal.setitimer(signal.ITIMER_REAL, 0)
        except (ValueError, OSError):
            pass

    def pytest_collection_modifyitems(self, session, config, items):
        keep = [it for i, it in enumerate(sorted(items, key=lambda it: it.nodeid)) if i % self.count == self.index]
        drop = [it for it in items if it not in keep]
        if drop:
            config.hook.pytest_deselected(items=drop)
        items[:] = keep
        self.kept = len(keep)

    def pytest_runtest_logreport(self, report):
        if report.when == "call":
            if report.passed:
                self.passed += 1
            elif report.failed:
                self.failed += 1
        elif report.skipped:
            self.skipped += 1


def repo_tests(rec, index, count):
    """Run slice `index` of `count` of $PV_REPO/tests in-process, under whatever monitors are installed."""
    repo = os.environ.get("PV_REPO", "/repo")
    tdir = os.path.join(repo, "tests")
    if not os.path.isdir(tdir):
        rec.notes["W3"] = "skipped: %s does not exist" % tdir
        return
    try:
        import pytest
    except ImportError:
        rec.notes["W3"] = "skipped: pytest not importable"
        return
    sl = _Slice(index, count)
    t0 = time.time()
    evals0 = rec.evals
    old_cwd = os.getcwd()
    old_argv = sys.argv
    try:
        os.chdir(repo)
        sys.argv = ["pytest"]
        rc = pytest.main(["-q", "-p", "no:cacheprovider", "--no-header", "-x" if False else "-q", "--tb=no", "-o", "addopts=", tdir], plugins=[sl])
    except BaseException as e:          # pytest may raise SystemExit on usage errors
        rc = "raised %r" % (e,)
    finally:
        os.chdir(old_cwd)
        sys.argv = old_argv
    rec.case("W3:repo-tests", None, nontrivial=False)
    rec.event("W3:tests-passed", sl.passed)
    rec.event("W3:tests-failed", sl.failed)
    rec.event("W3:tests-not-started(budget)", sl.over_budget)
    rec.event("W3:tests-abandoned(budget)", sl.abandoned)
    rec.event("W3:oracle-evaluations-during-repo-tests", rec.evals - evals0)
    rec.notes.setdefault("W3", "the repository's own tests ran in-process under the installed monitors, sliced over the shards; test outcomes themselves do not decide anything here")
    rec.paths["W3:seconds"] += int(time.time() - t0)


def attach(rec, pid, w2=True, w3=True, w2_rounds=1):
    """Called by a property's thorough tier after its own workload."""
    install_families(FAMILIES.get(pid, []))
    if w2:
        which = {"bls": "validator", "secp": "wallet", "secp-j": "wallet", "curve": "evm", "field": "evm", "h2c": "validator", "zcash": "validator"}
        sel = sorted({which[f] for f in FAMILIES.get(pid, []) if f in which})
        if "field" in FAMILIES.get(pid, []) or "curve" in FAMILIES.get(pid, []):
            sel = sorted(set(sel) | {"validator"})
        scenarios(rec, which=sel, rounds=w2_rounds)
    if w3:
        repo_tests(rec, rec.shard, rec.nshards)
