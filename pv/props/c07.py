"""C07 — curve operations form the standard abelian group in all four curve modules."""
from __future__ import annotations

import itertools

from ..model import params
from ..model.ec import Curve
from ..monitors import curve as cmon
from ..monitors import field as fmon
from ..monitors.install import import_all
from . import curvegen as CG
from . import fieldgen as FG
from .common import call

SELFTESTS = ["params", "scalar_mul", "fields"]
DECIDING = ["M-curve.add", "M-curve.double", "M-curve.neg", "M-curve.multiply", "M-curve.twist", "B-curve.law", "B-curve.constants"]
RULE = ("cases = calls of add/double/neg/multiply/twist in the four curve modules on the base curve, the twist and the Fp12 curve, each "
        "judged by a monitor wrapped around the function against the affine model (pv.model.ec on pv.model.gf) computed from the affine images "
        "of the operands; group laws (commutativity, associativity, identity, inverse, double = add, additivity and multiplicativity of "
        "multiply, reduction mod r on the subgroup, results on the curve) additionally evaluated on library outputs; reference vs optimized "
        "compared directly; constants compared with values derived from the curve parameters (pv.model.params); W4: the unchanged module "
        "functions on every point pair / triple / scalar of small odd-order curves y^2=x^3+b over GF(p) and GF(p^2), optimized modules with "
        "every non-zero rescaling and several infinity representatives; distinct = distinct (module, function, operands); non-trivial = "
        "operands other than multiples <= 12 of a generator with z = 1")
ASSUMPTIONS = ["points with y = 0 do not exist on the odd-order curves the property names and are not generated for the reference modules"]


def shards(tier):
    return 16


def required_classes(tier):
    out = ["pairs:hash-colliding-denominators", "pairs:shared-coordinate", "constants", "cross-module", "W4:pairs", "W4:triples", "W4:scalars", "W4:GF(p^2)", "non-subgroup", "torsion", "rescaled", "inf-rep", "scalar:640bit", "scalar:r", "twist"]
    for mk in CG.MODKEYS:
        for g in ("G1", "G2", "G12"):
            out.append("%s:%s" % (mk, g))
    return out


def eq_lib(modkey, c, A, B):
    if CG.rep_of(modkey) == "ref":
        return A == B
    return c.eq(A, B)


def law(rec, modkey, what, ok, case):
    rec.check("B-curve.law", ok is True or ok == True, "law:" + modkey, "%s: %s violated" % (modkey, what), case=case, facts={"module": modkey, "law": what})  # noqa: E712


def group_points(modkey, group, rng, quick):
    """[(label, model point)] for the real curve group."""
    S = CG.suite_of(modkey)
    bls = S.name == "bls12_381"
    out = []
    if group == "G1":
        E, g, deg = S.E1, S.g1, 1
    elif group == "G2":
        E, g, deg = S.E2, S.g2, 2
    else:
        E, g, deg = S.E12, S.twist(S.g2), 12
    ks = [1, 2, 3, 5, S.r - 1, rng.randrange(1, S.r), rng.randrange(1, S.r)]
    if group == "G12":
        ks = [1, 2, rng.randrange(1, S.r)]
        for kk in ks:
            out.append(("kG", S.twist(S.E2.mul(S.g2, kk))))
        out.append(("kG", S.E12.add(S.twist(S.E2.mul(S.g2, 7)), (S.embed_fp(S.E1.mul(S.g1, 3)[0]), S.embed_fp(S.E1.mul(S.g1, 3)[1])))))
        return E, deg, out
    for kk in ks:
        out.append(("kG", E.mul(g, kk)))
    if group == "G1" and bls or group == "G2":
        for _ in range(2 if quick else 6):
            out.append(("non-subgroup", E.rand_point(rng)))
        if bls:
            cof, qs = (params.BLS_H1 * S.r, (3, 11)) if group == "G1" else (params.BLS_H2 * S.r, (13, 23))
        else:
            cof, qs = params.BN_TWIST_COFACTOR * S.r, (10069,)
        for q in qs:
            T = CG.torsion_point(E, cof, q, rng)
            out.append(("torsion", T))
            out.append(("non-subgroup", E.add(E.mul(g, rng.randrange(1, S.r)), T)))
    return E, deg, out


def real_group(rec, modkey, group, quick, parts=("pairs", "scalars", "twist")):
    rng = rec.rng
    c, pm, pkg = CG.lib(modkey)
    rep = CG.rep_of(modkey)
    S = CG.suite_of(modkey)
    E, deg, pts = group_points(modkey, group, rng, quick)
    F = E.F
    b_lib = {"G1": c.b, "G2": c.b2, "G12": c.b12}[group]
    cls_tag = "%s:%s" % (modkey, group)

    def L(Pt, scaled=False, inf_rep=None):
        if rep == "opt" and scaled:
            rec.case("rescaled", None, nontrivial=False)
            return CG.to_lib(modkey, Pt, deg, rng, scale=CG.rand_scale(F, rng), inf_rep=inf_rep)
        return CG.to_lib(modkey, Pt, deg, rng, inf_rep=inf_rep)

    small_mult = lambda lab: False
    # pairs ---------------------------------------------------------------
    pairs = []
    for lab, P in pts:
        pairs += [(P, P), (P, E.neg(P)), (P, None), (None, P)]
        for _ in range(2):
            pairs.append((P, rng.choice(pts)[1]))
    # distinct points that share a coordinate: equal y, x times a cube root of unity (j = 0 curves); equal x is the inverse pair above
    for lab, P in pts[:3]:
        if P is not None and group in ("G1", "G2"):
            pairs.append((P, CG.endo(E.F, P, 1)))
            pairs.append((CG.endo(E.F, P, 2), P))
            rec.case("pairs:shared-coordinate", None, nontrivial=False)
    # two additions whose slope denominators x2 - x1 are distinct residues with equal hash() (they differ by a multiple of 2^61 - 1)
    if group == "G1" and len(pts) >= 2 and pts[0][1] is not None and pts[1][1] is not None:
        A_, B_ = pts[0][1], pts[1][1]
        d = (B_[0][0] - A_[0][0]) % E.F.p
        C_ = pts[2][1] if len(pts) > 2 and pts[2][1] is not None else A_
        for k_ in range(1, 40):
            xs = E.lift_x(((C_[0][0] + d + k_ * CG.M61) % E.F.p,))
            if xs and d + k_ * CG.M61 < E.F.p:
                pairs.append((A_, B_))
                pairs.append((C_, xs[0]))
                rec.case("pairs:hash-colliding-denominators", None, nontrivial=False)
                break
    pairs.append((None, None))
    if group == "G12":
        pairs = pairs[:8] if quick else pairs
    if "pairs" not in parts:
        pairs = []
    for P, Q in pairs:
        for scaled in ((False, True) if rep == "opt" else (False,)):
            inf_rep = rng.choice(CG.INF_REPS) if scaled else None
            if inf_rep and (P is None or Q is None):
                rec.case("inf-rep", None, nontrivial=False)
            a, bq = L(P, scaled, inf_rep), L(Q, scaled, inf_rep)
            rec.case(cls_tag, (modkey, group, "add", P, Q, scaled), sample={"module": modkey, "group": group, "fn": "add", "P": P, "Q": Q, "rescaled": scaled})
            st, s1 = call(c.add, a, bq)
            st2, s2 = call(c.add, bq, a)
            case = {"module": modkey, "group": group, "P": P, "Q": Q}
            if st == "ok" and st2 == "ok":
                law(rec, modkey, "add(P, Q) == add(Q, P)", eq_lib(modkey, c, s1, s2), case)
                law(rec, modkey, "sum is on the curve", c.is_on_curve(s1, b_lib), case)
            if P is not None and P == Q:
                st3, d = call(c.double, a)
                if st == "ok" and st3 == "ok":
                    law(rec, modkey, "double(P) == add(P, P)", eq_lib(modkey, c, d, s1), case)
            if Q is None and st == "ok":
                law(rec, modkey, "P + O == P", eq_lib(modkey, c, s1, a), case)
            if P is not None and Q == E.neg(P) and st == "ok":
                law(rec, modkey, "P + (-P) == O", c.is_inf(s1), case)
                st4, nP = call(c.neg, a)
                if st4 == "ok":
                    law(rec, modkey, "neg(P) == -P", eq_lib(modkey, c, nP, bq), case)
    # triples (associativity) ----------------------------------------------
    for _ in range(((2 if group == "G12" else 6) if quick else 40) if "pairs" in parts else 0):
        P, Q, R = (rng.choice(pts)[1] for _ in range(3))
        a, bq, cr = L(P, True), L(Q, True), L(R, True)
        rec.case(cls_tag, (modkey, group, "assoc", P, Q, R))
        st, l = call(lambda: c.add(c.add(a, bq), cr))
        st2, r = call(lambda: c.add(a, c.add(bq, cr)))
        if st == "ok" and st2 == "ok":
            law(rec, modkey, "(P + Q) + R == P + (Q + R)", eq_lib(modkey, c, l, r), {"module": modkey, "group": group, "P": P, "Q": Q, "R": R})
    # scalars ----------------------------------------------------------------
    r, p = S.r, S.p
    if group == "G12":
        scalars = [0, 1, 2, 3, rng.getrandbits(64)] + ([] if quick and rep == "ref" else [rng.getrandbits(255), r])
        plist = pts[:2]
    else:
        scalars = [0, 1, 2, 3, r - 1, r, r + 1, 2 * p - r, rng.getrandbits(64), rng.getrandbits(255), rng.getrandbits(381), rng.getrandbits(640) | (1 << 639)]
        n0 = rng.getrandbits(200)
        scalars += [n0, n0 + CG.M61, n0 + 5 * CG.M61]
        from .common import bit_patterns
        wide = bit_patterns(640, rng, 2 if quick else 10) + bit_patterns(512, rng, 1 if quick else 6)
        sparse_wide = [v for v in wide if bin(v).count("1") <= 6]
        if not quick:
            scalars += wide
        elif rep == "opt":
            scalars += sparse_wide + rng.sample(wide, 4)                         # zero / one runs, low Hamming weight, single holes in wide scalars
        else:
            scalars += rng.sample(sparse_wide, 3) + rng.sample(wide, 2)
        scalars += CG.ladder_special_scalars(r, rng, 4 if quick else 40)             # accumulator = O, +-P, +-2P in the middle of the ladder
        es = CG.endo_scalars(r)
        scalars += (es[:6] if quick else es) + list(range(4, 9 if quick else 40))     # eigenvalues of the j = 0 endomorphism, small scalars        # distinct ints with equal hash(): a memo keyed by hash(n) would confuse them
        plist = pts if not quick else [pts[0], pts[5], pts[-1], pts[-2]][: len(pts)]
    if "scalars" not in parts:
        plist = []
    for lab, P in plist:
        a = L(P, True)
        if lab != "kG":
            rec.case(lab, None, nontrivial=False)
        for n in scalars:
            if n.bit_length() == 640:
                rec.case("scalar:640bit", None, nontrivial=False)
            if n == r:
                rec.case("scalar:r", None, nontrivial=False)
            rec.case(cls_tag, (modkey, group, "mul", P, n), sample={"module": modkey, "group": group, "fn": "multiply", "P": P, "n": n})
            st, m = call(c.multiply, a, n)
            if st == "ok" and lab == "kG" and group != "G12":
                st2, m2 = call(c.multiply, a, n % r)
                if st2 == "ok":
                    law(rec, modkey, "multiply(P, n) == multiply(P, n mod r) on the subgroup", eq_lib(modkey, c, m, m2), {"module": modkey, "group": group, "P": P, "n": n})
        # additivity / multiplicativity in n
        for _ in range(1 if quick else 4):
            bits = 48 if group == "G12" else rng.choice([64, 200])
            n1, n2 = rng.getrandbits(bits), rng.getrandbits(bits)
            st, lhs = call(lambda: c.multiply(a, n1 + n2))
            st2, rhs = call(lambda: c.add(c.multiply(a, n1), c.multiply(a, n2)))
            if st == "ok" and st2 == "ok":
                law(rec, modkey, "multiply(P, a+b) == multiply(P, a) + multiply(P, b)", eq_lib(modkey, c, lhs, rhs), {"module": modkey, "group": group, "P": P, "a": n1, "b": n2})
            if group != "G12":
                st3, lhs2 = call(lambda: c.multiply(c.multiply(a, n1), n2))
                st4, rhs2 = call(lambda: c.multiply(a, n1 * n2))
                if st3 == "ok" and st4 == "ok":
                    law(rec, modkey, "multiply(multiply(P, a), b) == multiply(P, a*b)", eq_lib(modkey, c, lhs2, rhs2), {"module": modkey, "group": group, "P": P, "a": n1, "b": n2})
    # twist --------------------------------------------------------------------
    if group == "G2" and "twist" in parts:
        seen = {}
        for lab, Q in pts[: (6 if quick else len(pts))] + [("inf", None)]:
            if Q is None and rep == "opt":
                q = CG.to_lib(modkey, None, 2, rng)
            else:
                q = L(Q, True)
            rec.case("twist", (modkey, "twist", Q), sample={"module": modkey, "fn": "twist", "Q": Q})
            st, t = call(c.twist, q)
            if st != "ok":
                continue
            law(rec, modkey, "twist(Q) lies on the Fp12 curve", c.is_on_curve(t, c.b12), {"module": modkey, "Q": Q})
            key = cmon.aff(t, rep)[1]
            law(rec, modkey, "twist is injective on the sample", seen.get(key, Q) == Q, {"module": modkey, "Q": Q})
            seen[key] = Q
            R = rng.choice(pts)[1]
            st2, t2 = call(lambda: c.twist(c.add(q, L(R))))
            st3, t3 = call(lambda: c.add(t, c.twist(L(R))))
            if st2 == "ok" and st3 == "ok":
                law(rec, modkey, "twist(Q + R) == twist(Q) + twist(R)", eq_lib(modkey, c, t2, t3), {"module": modkey, "Q": Q, "R": R})


def constants(rec):
    rec.case("constants", None, nontrivial=False)
    for modkey in CG.MODKEYS:
        c, pm, pkg = CG.lib(modkey)
        rep = CG.rep_of(modkey)
        S = CG.suite_of(modkey)
        bls = S.name == "bls12_381"

        def chk(name, ok, exp=None, got=None):
            rec.check("B-curve.constants", ok, "constants", "%s.%s is not the standard value" % (modkey, name), case={"module": modkey, "name": name},
                      facts={"module": modkey, "constant": name}, expected=exp, observed=got)
        chk("field_modulus", c.field_modulus == S.p, S.p, c.field_modulus)
        chk("curve_order", c.curve_order == S.r, S.r, c.curve_order)
        chk("b", fmon.value_of(c.b)[1] == S.E1.b, S.E1.b)
        chk("b2", fmon.value_of(c.b2)[1] == S.E2.b, S.E2.b)
        chk("b12", fmon.value_of(c.b12)[1] == S.E12.b, S.E12.b)
        chk("G1", cmon.aff(c.G1, rep)[1] == S.g1, S.g1)
        chk("G2", cmon.aff(c.G2, rep)[1] == S.g2, S.g2)
        chk("G12", cmon.aff(c.G12, rep)[1] == S.twist(S.g2))
        chk("Z1", cmon.aff(c.Z1, rep)[1] is None and (rep == "ref" or fmon.value_of(c.Z1[2])[0].k == 1))
        chk("Z2", cmon.aff(c.Z2, rep)[1] is None and (rep == "ref" or fmon.value_of(c.Z2[2])[0].k == 2))
        chk("w", fmon.value_of(c.w)[1] == (0, 1) + (0,) * 10)
        chk("FQ.field_modulus", c.FQ.field_modulus == S.p and c.FQ2.field_modulus == S.p and c.FQ12.field_modulus == S.p)
        chk("FQ2 modulus", tuple(x % S.p for x in c.FQ2.FQ2_MODULUS_COEFFS) == S.F2.mc)
        chk("FQ12 modulus", tuple(x % S.p for x in c.FQ12.FQ12_MODULUS_COEFFS) == S.F12.mc)
        chk("ate_loop_count", pm.ate_loop_count == S.ate, S.ate, pm.ate_loop_count)
        chk("package exports", pkg.G1 is c.G1 and pkg.G2 is c.G2 and pkg.curve_order == S.r and pkg.field_modulus == S.p)


def cross_module(rec, quick):
    rng = rec.rng
    for curve in ("bn128", "bls12_381"):
        rk, ok = "ref." + curve, "opt." + curve
        rc, oc = CG.lib(rk)[0], CG.lib(ok)[0]
        S = params.suite(curve)
        for grp, E, g, deg in (("G1", S.E1, S.g1, 1), ("G2", S.E2, S.g2, 2)):
            for _ in range(3 if quick else 20):
                P, Q = E.mul(g, rng.randrange(1, S.r)), E.rand_point(rng)
                n = rng.getrandbits(rng.choice([64, 255, 400]))
                rec.case("cross-module", (curve, grp, P, Q, n))
                for fn, args in (("add", (P, Q)), ("double", (Q,)), ("multiply", (Q, n)), ("neg", (P,))):
                    ra = [CG.to_lib(rk, x, deg) if not isinstance(x, int) else x for x in args]
                    oa = [CG.to_lib(ok, x, deg, rng, scale=CG.rand_scale(E.F, rng)) if not isinstance(x, int) else x for x in args]
                    st, rr = call(getattr(rc, fn), *ra)
                    st2, orr = call(getattr(oc, fn), *oa)
                    good = st == "ok" and st2 == "ok" and cmon.aff(rr, "ref")[1] == cmon.aff(orr, "opt")[1]
                    rec.check("B-curve.cross", good, "cross-module", "reference and optimized %s.%s disagree" % (curve, fn),
                              case={"curve": curve, "group": grp, "fn": fn, "args": list(args)}, facts={"curve": curve, "fn": fn, "kind": "cross"})


def w4(rec, quick):
    rng = rec.rng
    curves = CG.small_curves(13 if quick else 31, deg2_ps=(5, 7) if quick else (5, 7, 11))
    if quick:
        seen_sz = set()
        keep = []
        for cv in curves:
            F, b, pts = cv
            if F.k == 2:
                if (F.p, F.mc, len(pts)) in seen_sz:
                    continue
                seen_sz.add((F.p, F.mc, len(pts)))
            keep.append(cv)
        curves = keep
    order = sorted(range(len(curves)), key=lambda j: -(len(curves[j][2]) ** 2) * (6 if curves[j][0].k == 2 else 1))
    load = [0] * rec.nshards
    mine = set()
    for j in order:
        sh = load.index(min(load))
        load[sh] += (len(curves[j][2]) ** 2) * (6 if curves[j][0].k == 2 else 1)
        if rec.nshards - 1 - sh == rec.shard:      # mirrored: the real-curve tasks fill shards from 0 upwards
            mine.add(j)
    for ci, (F, b, pts) in enumerate(curves):
        if ci not in mine:
            continue
        n = len(pts)
        E = Curve(F, F.zero, b)
        for modkey in CG.MODKEYS:
            c = CG.lib(modkey)[0]
            rep = CG.rep_of(modkey)
            impl = "ref" if rep == "ref" else "opt"
            if F.k == 1:
                cls, _ = FG.adhoc_class(impl, F.p)
                classes = {1: cls}
            else:
                cls, _ = FG.adhoc_class(impl, F.p, F.mc)
                classes = {2: cls}
                rec.case("W4:GF(p^2)", None, nontrivial=False)
            deg = F.k
            scales = [None] if rep == "ref" else ([None] + [s for s in ([tuple(e) for e in F.all_elements()] if F.q <= 13 else [CG.rand_scale(F, rng) for _ in range(3)]) if any(s) and s != F.one])
            reps = {}
            for P in pts:
                if P is None and rep == "opt":
                    reps[P] = [CG.to_lib(modkey, None, deg, rng, inf_rep=r, classes=classes) for r in CG.INF_REPS]
                else:
                    reps[P] = [CG.to_lib(modkey, P, deg, rng, scale=s, classes=classes) for s in (scales if P is not None else [None])]
            cnt = 0
            full = len(pts) <= 16 or not quick
            big = quick and n > 35
            for P in pts:
                for Q in (pts if not big else rng.sample(pts, 10) + [P, E.neg(P), None]):
                    ra = reps[P] if full else [rng.choice(reps[P])]
                    for a in ra:
                        bq = rng.choice(reps[Q])
                        call(c.add, a, bq)
                        cnt += 1
                for a in reps[P]:
                    call(c.double, a)
                    call(c.neg, a)
            rec.classes["W4:pairs"] += cnt
            rec.count_distinct(cnt)
            # triples on the smallest curves
            if n <= 9 or (not quick and n <= 16):
                t = 0
                for P, Q, R in itertools.product(pts, repeat=3):
                    a, bq, cr = rng.choice(reps[P]), rng.choice(reps[Q]), rng.choice(reps[R])
                    st, l = call(lambda: c.add(c.add(a, bq), cr))
                    st2, r = call(lambda: c.add(a, c.add(bq, cr)))
                    if st == "ok" and st2 == "ok":
                        law(rec, modkey, "associativity on a small curve", cmon.aff(l, rep)[1] == cmon.aff(r, rep)[1], {"module": modkey, "p": F.p, "b": b, "P": P, "Q": Q, "R": R})
                    t += 1
                rec.classes["W4:triples"] += t
                rec.count_distinct(t)
            s = 0
            for P in (pts if not big else rng.sample(pts, 8)):
                for k in range(0, 2 * n + 2):
                    call(c.multiply, rng.choice(reps[P]), k)
                    s += 1
            rec.classes["W4:scalars"] += s
            rec.count_distinct(s)
            if not big:
                rec.exhaustive_space("%s add/double/neg/multiply on y^2=x^3+%r over %r (#E=%d): all ordered pairs%s, all scalars 0..2#E+1" % (
                    modkey, b, "GF(%d)" % F.p if F.k == 1 else "GF(%d^2)/%r" % (F.p, F.mc),     n, " x all rescalings" if rep == "opt" and full else ""), cnt + s)
        if len(rec.samples) < 10:
            rec.samples.append({"class": "W4", "case": {"field": "GF(%d^%d)" % (F.p, F.k), "b": b, "order": n, "modules": CG.MODKEYS}})


def run(rec):
    import_all()
    cmon.install(every_outer=1, every_inner=23 if rec.tier == "quick" else 7, fns=["add", "double", "neg", "eq", "is_on_curve", "twist", "multiply"])
    quick = rec.tier == "quick"
    tasks = []
    for modkey in CG.MODKEYS:
        for group in ("G12", "G2", "G1"):
            for part in ("scalars", "pairs", "twist"):
                if part == "twist" and group != "G2":
                    continue
                cost = {"G12": 30, "G2": 6, "G1": 2}[group] * (3 if modkey.startswith("ref") and group == "G12" else 1) * (2 if part == "scalars" else 1)
                tasks.append((cost, modkey, group, part))
    tasks.sort(reverse=True)
    # greedy longest-processing-time assignment to shards (deterministic)
    load = [0] * rec.nshards
    for cost, modkey, group, part in tasks:
        sh = load.index(min(load))
        load[sh] += cost
        if sh == rec.shard:
            real_group(rec, modkey, group, quick, parts=(part,))
    if rec.shard == rec.nshards - 1:
        constants(rec)
    if rec.shard == rec.nshards - 2 or rec.nshards == 1:
        cross_module(rec, quick)
    w4(rec, quick)


def replay(rec, case):
    import_all()
    cmon.install()
    fn = case.get("fn")
    if fn is None or "module" not in case:
        constants(rec)
        return
    modkey = case["module"]
    c = CG.lib(modkey)[0]

    def rebuild(raw):
        if raw is None:
            return None
        k = len(raw[0])
        classes = CG.field_classes(modkey)
        return tuple(CG.mk_el(classes[k], tuple(v)) for v in raw)
    if fn in ("add", "eq"):
        call(getattr(c, fn), rebuild(case["p1"]), rebuild(case["p2"]))
    elif fn in ("double", "neg", "twist"):
        call(getattr(c, fn), rebuild(case["p1"]))
    elif fn == "multiply":
        call(c.multiply, rebuild(case["p1"]), case["n"])
