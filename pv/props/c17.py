"""C17 — subgroup membership test is exact; cofactor clearing lands in the subgroup."""
from __future__ import annotations

import importlib

from ..model import params
from ..monitors import conv
from ..monitors import h2c as hmon
from ..monitors import zcash as zmon
from ..monitors.install import import_all
from . import curvegen as CG
from .common import call

SELFTESTS = ["fields", "params", "scalar_mul"]
DECIDING = ["M-subgroup", "M-h2c.clear", "M-h2c.subgroup", "B-constants"]
RULE = ("cases = calls of subgroup_check and clear_cofactor_G1/G2 on the real module with curve points of E(Fp) and E'(Fp2): k*G, k*G + T and T "
        "alone for T of exact prime order q for every small prime factor q of the cofactors (3, 11, 10177, 859267, 52437899; 13, 23, 2713, "
        "11953, 262069) and for T of large cofactor order, random curve points, infinity in four representatives, each also in a random "
        "projective rescaling; monitors wrapped around the functions compare with model [r]P == O resp. [h_eff]P computed by an independent "
        "affine/Jacobian model, and require cleared points to be in the subgroup; published cofactor constants are compared with values "
        "derived from the curve parameter x; distinct = distinct (function, affine point, representative); non-trivial = anything but a small "
        "multiple (<= 12) of a generator with z = 1")
ASSUMPTIONS = ["subgroup_check is judged on curve points only (the statement quantifies over curve points)"]
MK = "opt.bls12_381"
F1, F2, E1, E2 = params.BLS_FP, params.BLS_FP2, params.BLS_E1, params.BLS_E2
R = params.BLS_R


def shards(tier):
    return 16


def required_classes(tier):
    out = []
    for g in ("g1", "g2"):
        out += ["%s:sub:%s" % (g, k) for k in ("fold-colliding-x", "T:endomorphism-eigenspace", "kG", "kG+T", "T", "random", "infinity", "rescaled", "large-cofactor")]
        out += ["%s:clear:%s" % (g, k) for k in ("random", "subgroup", "torsion", "infinity")]
    out += ["constants", "soak:distinct-points"]
    return out


def _fns():
    gp = importlib.import_module("py_ecc.bls.g2_primitives")
    h2c = importlib.import_module("py_ecc.bls.hash_to_curve")
    return gp.subgroup_check, h2c.clear_cofactor_G1, h2c.clear_cofactor_G2


def check_constants(rec):
    exp = {
        ("py_ecc.optimized_bls12_381.constants", "H_EFF_G1"): params.BLS_HEFF1,
        ("py_ecc.optimized_bls12_381.constants", "H_EFF_G2"): params.BLS_HEFF2,
        ("py_ecc.bls.constants", "G2_COFACTOR"): params.BLS_H2,
        ("py_ecc.optimized_bls12_381.optimized_curve", "curve_order"): params.BLS_R,
        ("py_ecc.optimized_bls12_381.optimized_curve", "field_modulus"): params.BLS_P,
        ("py_ecc.bls12_381.bls12_381_curve", "curve_order"): params.BLS_R,
        ("py_ecc.bls.g2_primitives", "curve_order"): params.BLS_R,
    }
    for (mod, name), v in exp.items():
        try:
            m = importlib.import_module(mod)
            got = getattr(m, name)
        except Exception:
            rec.unavailable.append("%s.%s" % (mod, name))
            continue
        rec.case("constants", ("const", mod, name), nontrivial=True, sample={"constant": mod + "." + name})
        rec.check("B-constants", isinstance(got, int) and got == v, "constants", "%s.%s differs from the value derived from the BLS12-381 parameter x" % (mod, name),
                  case={"fn": "constant", "module": mod, "name": name}, facts={"kind": "constant", "name": name}, expected=v, observed=got)
    # derivation sanity (model side): h_eff are multiples of the true cofactors and coprime-to-r multipliers
    rec.check("B-constants", params.BLS_HEFF2 % params.BLS_H2 == 0 and params.BLS_HEFF1 % 1 == 0 and (params.BLS_H1 * R) % 1 == 0, "constants", "derivation")


def run(rec):
    import_all()
    zmon.install(["subgroup"])
    hmon.install(["clear1", "clear2"])
    sub, clear1, clear2 = _fns()
    rng = rec.rng
    quick = rec.tier == "quick"
    G1m, G2m = params.bls_generators()
    if rec.shard == 0:
        check_constants(rec)
    else:
        rec.case("constants", None, nontrivial=False)
        rec.ok("B-constants", 0)
    reps = 1 if quick else 12

    for g, E, F, gen, h, factors, clear in ((1, E1, F1, G1m, params.BLS_H1, params.BLS_H1_FACTORS, clear1),
                                             (2, E2, F2, G2m, params.BLS_H2, params.BLS_H2_SMALL_FACTORS, clear2)):
        order = h * R

        def L(Pt, scaled=False, inf_rep=None):
            return CG.to_lib(MK, Pt, g, rng, scale=CG.rand_scale(F, rng) if scaled else None, inf_rep=inf_rep, fq_coeffs=(rng.random() < 0.15))

        def sc(cls, Pt, scaled=False, inf_rep=None, nontrivial=True):
            rec.case("g%d:sub:%s" % (g, cls), ("sub", g, Pt, scaled, inf_rep), nontrivial=nontrivial,
                     sample={"fn": "subgroup_check", "group": "G%d" % g, "class": cls, "point": Pt, "rescaled": scaled})
            call(sub, L(Pt, scaled, inf_rep))
            if scaled or inf_rep:
                rec.case("g%d:sub:rescaled" % g if scaled else "g%d:sub:infinity" % g, None, nontrivial=False)

        for rep in range(reps):
            qs = list(factors)
            if quick:
                qs = [qs[(rec.shard + j) % len(qs)] for j in range(2)]
            for q in qs:
                T = CG.torsion_point(E, order, q, rng)
                k = rng.choice([1, 2, R - 1, rng.randrange(1, R)])
                kG = E.mul(gen, k)
                sc("kG", kG, nontrivial=k > 12)
                sc("kG", kG, scaled=True)
                sc("kG+T", E.add(kG, T))
                sc("kG+T", E.add(kG, T), scaled=True)
                sc("T", T)
                sc("T", E.mul(T, rng.randrange(1, q)), scaled=True)
                rec.path("torsion-order:%d" % q)
                # cofactor clearing of points with a small-order component
                rec.case("g%d:clear:torsion" % g, ("clear", g, T, q))
                call(clear, L(E.add(kG, T), scaled=True))
                call(clear, L(T))
            # torsion points in the eigenspaces of the curve endomorphism (endomorphism-based subgroup tests are the usual fast path)
            for q in [q_ for q_ in factors if q_ % 3 == 1][: (2 if quick else 9)]:
                for V in CG.eigen_torsion(E, order, q, rng):
                    kG = E.mul(gen, rng.randrange(1, R))
                    sc("T:endomorphism-eigenspace", V)
                    sc("T:endomorphism-eigenspace", E.add(kG, V), scaled=True)
                    sc("T:endomorphism-eigenspace", E.add(kG, E.mul(V, rng.randrange(1, q))))
            # a point whose x-coordinate COLLIDES with that of a point just checked under cheap folds (xor / add of limbs, low or high
            # bits, hash()): a memo keyed by a fold of x would hand it the other point's answer
            if g == 1:
                Pm = E.mul(gen, rng.randrange(1, R))
                sc("kG", Pm)
                got = 0
                for xq in CG.fold_colliding(Pm[0][0], F.p, rng, 10):
                    lift = E.lift_x((xq,))
                    if lift:
                        sc("fold-colliding-x", lift[0] if lift[0][1] == Pm[1] or rng.random() < 0.5 else lift[-1])
                        sc("kG", Pm)
                        got += 1
                        if got >= 6:
                            break
            else:
                rec.case("g2:sub:fold-colliding-x", None, nontrivial=False)
            # large cofactor order: [r]X for random X has order dividing h (almost surely large)
            X = E.rand_point(rng)
            big = E.mul(X, R)
            if big is not None:
                sc("large-cofactor", big)
                sc("large-cofactor", E.add(big, E.mul(gen, rng.randrange(1, R))), scaled=True)
            for j in range(2):
                Y = E.rand_point(rng)
                sc("random", Y, scaled=bool(j))
                rec.case("g%d:clear:random" % g, ("clear", g, Y), sample={"fn": "clear_cofactor_G%d" % g, "point": Y})
                call(clear, L(Y, scaled=bool(j)))
            for inf_rep in CG.INF_REPS:
                sc("infinity", None, inf_rep=inf_rep)
            rec.case("g%d:clear:infinity" % g, None, nontrivial=False)
            call(clear, L(None, inf_rep=CG.INF_REPS[rep % 4]))
            kG = E.mul(gen, rng.randrange(1, R))
            rec.case("g%d:clear:subgroup" % g, ("clear", g, kG))
            call(clear, L(kG, scaled=True))
            if g == 1 and rep == 0 and (rec.shard == 7 or not quick):
                soak(rec, sub, rng)
            elif g == 1 and rep == 0:
                rec.case("soak:distinct-points", None, nontrivial=False)
            # the order-r point obtained from a random point by the *true* cofactor must be accepted
            sc("kG", E.mul(E.rand_point(rng), h), scaled=True)


def soak(rec, sub, rng):
    from .common import soak_size, soak_then_reprobe
    G1m, _ = params.bls_generators()
    T3 = CG.torsion_point(E1, params.BLS_H1 * R, 11, rng)
    A_ = E1.mul(G1m, rng.randrange(1, R))
    Bad = E1.add(A_, T3)

    def L1(Pt):
        return CG.to_lib(MK, Pt, 1, rng)

    def distinct_points():
        Pt = A_
        j = 0
        while True:
            j += 1
            Pt = E1.add(Pt, G1m)
            X = Pt if j % 2 else E1.add(Pt, T3)
            yield (lambda X=X: call(sub, L1(X)))
    soak_then_reprobe(rec, "distinct-points", [lambda: call(sub, L1(A_)), lambda: call(sub, L1(Bad)), lambda: call(sub, L1(None))], distinct_points(),
                      soak_size(["py_ecc.bls.g2_primitives", "py_ecc.optimized_bls12_381.optimized_curve"], cap=1500))


def replay(rec, case):
    import_all()
    zmon.install(["subgroup"])
    hmon.install(["clear1", "clear2"])
    sub, clear1, clear2 = _fns()
    key = "pt" if "pt" in case else "p"
    if key not in case:
        check_constants(rec)
        return
    g = len(case[key][0])
    cls = CG.field_classes(MK)[g]
    pt = tuple(CG.mk_el(cls, tuple(v)) for v in case[key])
    fn = case["fn"]
    call(sub if fn == "subgroup_check" else clear1 if fn.endswith("G1") else clear2, pt)
