"""C01 — honest signatures and possession proofs always verify; bad secret keys refused; KeyGen usable."""
from __future__ import annotations

from fractions import Fraction

from ..model import params
from ..monitors import bls as bmon
from ..monitors.install import import_all
from .c09 import key_classes
from .c16 import w5_case
from .common import call, msg_pool

SELFTESTS = ["fields", "params", "zcash", "h2c", "bls", "hkdf"]
DECIDING = ["B-c01.verify", "B-c01.pop", "M-bls.reject", "B-c01.keygen"]
SCOPE = ["B-c01", "M-bls.reject"]
RULE = ("cases = (suite, secret key, message) triples driven through SkToPk -> Sign -> Verify and PopProve -> PopVerify on the real ciphersuite "
        "classes; the oracle demands exactly True; invalid secret keys (0, r, r+1, 2r, -1, -r, 2^255, 2^256, 10^100, str, bytes, float, None, "
        "list, Fraction) must be refused with eth_utils.ValidationError by SkToPk, Sign and PopProve (monitor wrapped around the methods); "
        "KeyGen results must lie in [1, r-1], equal the model's and survive sign -> verify; W5 fault injection forces the first j candidate keys "
        "of KeyGen to 0 to drive its retry loop. Keys: boundaries, one per bit length 1..255, random, low/high weight; messages: empty, single "
        "bytes, SHA-256 block/padding boundaries (also after the 48-byte AUG prefix), binary, KiB-sized, the public key itself. "
        "distinct = distinct (suite, key, message); non-trivial = key >= 2^80 or boundary/rejected key, or message not short printable ASCII"
        " A concurrent phase repeats Sign/Verify/PopProve/PopVerify/SkToPk of all suites in 3-4 threads at once and requires the single-threaded values (monitor B-driver.threads).")
ASSUMPTIONS = ["'non-integer type' = anything for which isinstance(x, int) is false; bool is not generated"]
R = params.BLS_R
BAD_KEYS = [0, R, R + 1, 2 * R, -1, -R, 1 << 255, 1 << 256, 10 ** 100, "1", b"\x01", 1.0, None, [1], Fraction(1), (1,), 2.5, float("inf")]


def shards(tier):
    return 16


def required_classes(tier):
    return ["key:pk-coordinate-band", "threads:sign+verify", "soak:valid-public-keys", "honest:custom-suite", "honest:basic", "honest:aug", "honest:pop", "pop", "reject:range", "reject:type", "keygen", "keygen:retry(W5)", "key:boundary", "key:bitlen", "key:random",
            "msg:empty", "msg:block-boundary", "msg:pk"]


def honest(rec, suite, S, sk, m, cls_extra=None, nontrivial=True):
    rec.case("honest:" + suite, ("honest", suite, sk, m), nontrivial=nontrivial,
             sample={"suite": suite, "sk_bits": sk.bit_length(), "msg_len": len(m)})
    case = {"fn": "sign-verify", "suite": suite, "sk": sk, "msg": m}
    st, pk = call(S.SkToPk, sk)
    st2, sig = call(S.Sign, sk, m)
    if st != "ok" or st2 != "ok":
        rec.check("B-c01.verify", False, "honest", "SkToPk/Sign raised for a valid key: %r %r" % (pk if st != "ok" else None, sig if st2 != "ok" else None),
                  case=case, facts={"kind": "raise", "suite": suite})
        return None, None
    st3, ok = call(S.Verify, pk, m, sig)
    rec.check("B-c01.verify", st3 == "ok" and ok is True, "honest", "Verify(SkToPk(sk), m, Sign(sk, m)) = %r" % (ok,), case=case,
              facts={"kind": "honest-rejected", "suite": suite}, expected=True, observed=ok if st3 == "ok" else repr(ok))
    return pk, sig


def pop(rec, P, sk, nontrivial=True):
    rec.case("pop", ("pop", sk), nontrivial=nontrivial, sample={"fn": "PopProve/PopVerify", "sk_bits": sk.bit_length()})
    case = {"fn": "pop", "sk": sk}
    st, pk = call(P.SkToPk, sk)
    st2, prf = call(P.PopProve, sk)
    if st != "ok" or st2 != "ok":
        rec.check("B-c01.pop", False, "pop", "SkToPk/PopProve raised for a valid key", case=case, facts={"kind": "raise"})
        return
    st3, ok = call(P.PopVerify, pk, prf)
    rec.check("B-c01.pop", st3 == "ok" and ok is True, "pop", "PopVerify(pk, PopProve(sk)) = %r" % (ok,), case=case, facts={"kind": "honest-rejected"},
              expected=True, observed=ok if st3 == "ok" else repr(ok))


def run(rec):
    import_all()
    cs = bmon.install(pair_arg=False)
    suites = {"basic": cs.G2Basic, "aug": cs.G2MessageAugmentation, "pop": cs.G2ProofOfPossession}
    names = list(suites)
    rng = rec.rng
    quick = rec.tier == "quick"
    keys = key_classes(__import__("random").Random(rec.seed * 104729 + 5), quick)
    msgs = msg_pool(rng, big=False)
    i = 0
    for kcls, sk in keys:
        i += 1
        if not rec.mine(i):
            continue
        nt = sk >= (1 << 80) or kcls == "boundary"
        rec.case("key:" + kcls, None, nontrivial=False)
        for suite in (names if not quick else [names[i // 16 % 3]]):
            S = suites[suite]
            which = (i // 16) % 4
            if which == 0:
                m = rng.choice([b"", bytes([rng.randrange(256)])])
                rec.case("msg:empty", None, nontrivial=False)
            elif which == 1:
                m = rng.randbytes(rng.choice([55, 56, 63, 64, 65, 119, 120, 127, 128, 129, 7, 8, 15, 16, 17, 71, 72, 79, 80]))
                rec.case("msg:block-boundary", None, nontrivial=False)
            elif which == 2:
                m = rng.choice(msgs)
            else:
                st, m = call(S.SkToPk, sk)
                if st != "ok":
                    m = b"pk"
                rec.case("msg:pk", None, nontrivial=False)
            honest(rec, suite, S, sk, m, nontrivial=nt or not (len(m) <= 32 and all(32 <= c < 127 for c in m)))
        if (i // 16) % 3 == 0 or not quick:
            pop(rec, suites["pop"], sk, nontrivial=nt)
    # ---- user-derived suites (another hash function / other tags): the same round trips must hold
    custom = bmon.custom_suites(cs)
    for j, (key, Sx) in enumerate(custom.items()):
        if (j + rec.shard) % 3 and quick:
            rec.case("honest:custom-suite", None, nontrivial=False)
            continue
        sk = rng.randrange(1, R)
        rec.case("honest:custom-suite", None, nontrivial=False)
        honest(rec, key, Sx, sk, rng.randbytes(rng.choice([0, 32, 65])))
        if key.startswith("pop"):
            pop(rec, Sx, sk)
    # ---- soak: more distinct VALID public keys than any bounded table in the key-handling modules can hold, then the first signer again
    if rec.shard % 8 == 3 or not quick:
        import py_ecc.bls.g2_primitives as gp
        from ..model import zcash as Zm
        from .common import soak_size, soak_then_reprobe
        E1m, G1m = params.BLS_E1, params.bls_generators()[0]
        nsoak = soak_size(["py_ecc.bls.g2_primitives", "py_ecc.bls.ciphersuites", "py_ecc.bls.point_compression"])
        skA, mA = rng.randrange(1, R), b"signed before the soak"
        suiteA = names[rec.shard % 3]

        def valid_keys():
            Pt = E1m.mul(G1m, rng.randrange(1, R))
            j = 0
            while True:
                Pt = E1m.add(Pt, G1m)
                kb = Zm.enc_g1(Pt)
                j += 1
                if j % 40 == 0:
                    yield (lambda kb=kb: call(suites[suiteA].KeyValidate, kb))
                else:
                    yield (lambda kb=kb: call(gp.pubkey_to_G1, kb))
        soak_then_reprobe(rec, "valid-public-keys", [lambda: honest(rec, suiteA, suites[suiteA], skA, mA), lambda: pop(rec, suites["pop"], skA)], valid_keys(), nsoak)
    else:
        rec.case("soak:valid-public-keys", None, nontrivial=False)
    # ---- keys whose PUBLIC key has an x-coordinate at the edge of the field (leading octet equal to the modulus's 0x1a, or 0x00):
    # found by walking sk -> sk + 1 in the model, see c02.coordinate_band_cases
    if rec.shard % 4 == 1 or not quick:
        q_ = params.BLS_P
        E1m, G1m = params.BLS_E1, params.bls_generators()[0]
        for j in range(2 if quick else 8):
            sk = rng.randrange(1, R // 2)
            Pt = E1m.mul(G1m, sk)
            for _ in range(60000):
                if ((Pt[0][0] >> 376) == (q_ >> 376)) if j % 2 == 0 else ((Pt[0][0] >> 376) == 0):
                    break
                sk += 1
                Pt = E1m.add(Pt, G1m)
            else:
                continue
            suite = names[(j + rec.shard) % 3]
            rec.case("key:pk-coordinate-band", None, nontrivial=False)
            honest(rec, suite, suites[suite], sk, rng.randbytes(rng.choice([0, 32, 65])))
            pop(rec, suites["pop"], sk)
    rec.case("key:pk-coordinate-band", None, nontrivial=False)
    # ---- concurrent use
    if rec.shard % 8 == 6 or not quick:
        threads_phase(rec, suites)
    else:
        rec.case("threads:sign+verify", None, nontrivial=False)
    # ---- refused keys (monitor M-bls.reject decides)
    for j, bad in enumerate(BAD_KEYS):
        if not rec.mine(j):
            continue
        cls = "reject:range" if isinstance(bad, int) else "reject:type"
        for suite, S in suites.items():
            rec.case(cls, ("bad", suite, repr(bad)), sample={"suite": suite, "bad_key": repr(bad)[:40]})
            call(S.SkToPk, bad)
            call(S.Sign, bad, b"message")
        call(suites["pop"].PopProve, bad)
    for cls in ("reject:range", "reject:type"):
        rec.case(cls, None, nontrivial=False)
    # ---- KeyGen: in range, usable
    ikm_lens = [0, 1, 31, 32, 33, 64, 128]
    for j in range(3 if quick else 24):
        ikm = rng.randbytes(ikm_lens[(j + rec.shard) % len(ikm_lens)])
        info = rng.randbytes(rng.choice([0, 1, 32, 64]))
        suite = names[(j + rec.shard) % 3]
        S = suites[suite]
        rec.case("keygen", ("kg", ikm, info), sample={"fn": "KeyGen", "ikm_len": len(ikm), "key_info_len": len(info)})
        st, sk = call(S.KeyGen, ikm, info)
        good = st == "ok" and type(sk) is int and 1 <= sk < R
        rec.check("B-c01.keygen", good, "keygen", "KeyGen result %r not an int in [1, r-1]" % (sk,), case={"fn": "KeyGen", "ikm": ikm, "info": info},
                  facts={"kind": "range"})
        if good and (j == 0 or not quick):
            honest(rec, suite, S, sk, b"keygen-" + ikm[:8])
    # ---- W5: retry loop under fault injection; the returned key must still be usable
    for j in ((1, 2) if quick else (1, 2, 3, 5)):
        if quick and (rec.shard + j) % 4:
            rec.case("keygen:retry(W5)", None, nontrivial=False)
            continue
        suite = names[(j + rec.shard) % 3]
        sk = w5_case(rec, cs, suites[suite], rng.randbytes(32), rng.randbytes(rng.choice([0, 5])), j, mon="B-c01.keygen")
        if sk is not None and type(sk) is int and 1 <= sk < R:
            honest(rec, suite, suites[suite], sk, b"after-retry")


def threads_phase(rec, suites):
    """Signing and verifying while other threads sign and verify (a thread pool of signers / verifiers)."""
    from ..model import bls as MB
    from .common import threaded_reprobe
    rng = rec.rng
    thunks = []
    for suite, S in suites.items():
        sk, m = rng.randrange(1, R), rng.randbytes(rng.choice([0, 32, 70]))
        pk, sig = MB.sk_to_pk(sk), MB.sign(suite, sk, m)
        thunks.append(("Sign[%s]" % suite, lambda S=S, sk=sk, m=m: S.Sign(sk, m)))
        thunks.append(("Verify[%s]" % suite, lambda S=S, pk=pk, m=m, sig=sig: S.Verify(pk, m, sig)))
    skp = rng.randrange(1, R)
    pkp, prf = MB.sk_to_pk(skp), MB.pop_prove(skp)
    thunks.append(("PopProve", lambda: suites["pop"].PopProve(skp)))
    thunks.append(("PopVerify", lambda: suites["pop"].PopVerify(pkp, prf)))
    thunks.append(("SkToPk", lambda: suites["basic"].SkToPk(skp)))
    threaded_reprobe(rec, "sign+verify", thunks, threads=3 if rec.tier == "quick" else 4, rounds=1 if rec.tier == "quick" else 4)


def replay(rec, case):
    import_all()
    cs = bmon.install(pair_arg=False)
    suites = {"basic": cs.G2Basic, "aug": cs.G2MessageAugmentation, "pop": cs.G2ProofOfPossession}
    fn = case.get("fn")
    if fn == "threads":
        return threads_phase(rec, suites)
    S = suites.get(case.get("suite", "basic"), cs.G2Basic)
    if fn == "sign-verify":
        honest(rec, case["suite"], S, case["sk"], case["msg"])
    elif fn == "pop":
        pop(rec, suites["pop"], case["sk"])
    elif fn == "KeyGen/W5":
        w5_case(rec, cs, S, case["ikm"], case["info"], case["j"], mon="B-c01.keygen")
    elif fn == "KeyGen":
        st, sk = call(S.KeyGen, case["ikm"], case["info"])
        rec.check("B-c01.keygen", st == "ok" and type(sk) is int and 1 <= sk < R, "keygen", "KeyGen result out of range")
    elif fn in ("SkToPk", "Sign", "PopProve"):
        sk = case["sk"]
        call(getattr(S if fn != "PopProve" else suites["pop"], fn), *([sk] if fn != "Sign" else [sk, b"message"]))
