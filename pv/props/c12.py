"""C12 — optimized pairings equal reference pairings; split final exponentiation exact."""
from __future__ import annotations

from .. import core
from ..model import params
from ..monitors import conv
from ..monitors.install import import_all, watch
from . import curvegen as CG
from .common import call

SELFTESTS = ["fields", "params", "scalar_mul"]
DECIDING = ["B-c12.ref-vs-opt", "B-c12.split", "B-c12.finalexp", "M-pairing.observed"]
RULE = ("cases = (a) pairs of calls optimized.pairing(Q, P) / reference.pairing(Q, P) of the same curve on the same affine subgroup points "
        "(optimized operands also randomly rescaled): the two returned FQ12 elements must have identical coefficients; (b) products of k = 1..6 "
        "values pairing(., ., final_exponentiate=False) passed once through final_exponentiate versus the product of the individually "
        "exponentiated pairings, multiplied in pv.model GF(p^12), including the verifier shapes e(S, G1) e(H, -PK) = 1 and the EVM product "
        "check with identity factors; (c) final_exponentiate(x) versus x^((p^12-1)/r) and exp_by_p(x) versus x^p computed with the model's own "
        "square-and-multiply for FQ12 elements 0, 1, -1, w, sparse, subfield, random and Miller-loop outputs. A monitor wrapped around each of "
        "the four pairing functions counts the observed calls. distinct = distinct (curve, inputs); non-trivial = scalars not in {1, 2, 27, 37, "
        "999} or rescaled operands / non-generator points / FQ12 elements other than 1"
        " A concurrent phase repeats optimized pairings (both flags) and final exponentiations of both curves in 3 threads and requires the single-threaded values.")
ASSUMPTIONS = ["reference and optimized pairing are compared as field elements (coefficient tuples), which is what 'exactly the same field element' means"]
CURVES = ["bn128", "bls12_381"]

REPLAY_BY_SHARD = True


def shards(tier):
    return 16


def required_classes(tier):
    out = []
    for cv in CURVES:
        out += ["%s:ref-vs-opt" % cv, "%s:split-product" % cv, "%s:verifier-shape" % cv, "%s:finalexp" % cv]
    out += ["identity-operand", "threads:pairings", "opt:sparse-rescaled", "same-operands-both-flags", "bls12_381:exp_by_p", "opt:rescaled", "product:identity-factor", "fq12:zero", "fq12:sparse", "fq12:subfield", "fq12:random", "fq12:miller-output"]
    return out


def h_pairing(modkey):
    def h(a, k, res, exc):
        rec = core.cur()
        rec.ok("M-pairing.observed")
        rec.event("pairing-call:%s:%s%s" % (modkey, "raised" if exc is not None else "returned", ":no-final-exp" if k.get("final_exponentiate") is False or (len(a) > 2 and a[2] is False) else ""))
    return h


def tup(v, p):
    t = tuple(c % p for c in conv.el(v))
    if len(t) != 12:
        raise ValueError("not a degree-12 element")
    return t


def fq12_elements(S, rng, FQ12cls, miller_vals):
    p = S.p
    out = [("zero", (0,) * 12), ("one", (1,) + (0,) * 11), ("sparse", ((p - 1),) + (0,) * 11), ("sparse", (0, 1) + (0,) * 10)]
    for _ in range(2):
        t = [0] * 12
        t[rng.randrange(12)] = rng.randrange(1, p)
        t[rng.randrange(12)] = rng.randrange(1, p)
        out.append(("sparse", tuple(t)))
    out.append(("subfield", (rng.randrange(p),) + (0,) * 11))
    out.append(("subfield", S.embed_fp2((rng.randrange(p), rng.randrange(1, p)))))
    for _ in range(2):
        out.append(("random", tuple(rng.randrange(p) for _ in range(12))))
    for v in miller_vals[:2]:
        out.append(("miller-output", v))
    return out


def run(rec):
    import_all()
    for mk in CG.MODKEYS:
        watch(CG.cmon.MODULES[mk][1], "pairing", "M-pairing.observed", h_pairing(mk))
    rng = rec.rng
    quick = rec.tier == "quick"
    cv = CURVES[rec.shard % 2]
    role = (rec.shard // 2) % 4                   # 0,1: ref-vs-opt (expensive)   2: split products   3: final exponentiation identities
    S = params.suite(cv)
    F12 = S.F12
    refk, optk = "ref." + cv, "opt." + cv
    cr, pr, _ = CG.lib(refk)
    co, po, _ = CG.lib(optk)
    FQ12 = co.FQ12

    def Lo(Pt, deg, rescale=True):
        sc = None
        u_ = rng.random()
        if rescale and Pt is not None and u_ < 0.25:
            # a rescaling that makes a coefficient of a coordinate (or of its twisted image) vanish
            scs = CG.sparse_scales(S.F1 if deg == 1 else S.F2, Pt, getattr(S, "shift", None))
            sc = scs[rng.randrange(len(scs))]
            rec.case("opt:sparse-rescaled", None, nontrivial=False)
        elif rescale and Pt is not None and u_ < 0.7:
            sc = CG.rand_scale(S.F1 if deg == 1 else S.F2, rng)
            rec.case("opt:rescaled", None, nontrivial=False)
        return CG.to_lib(optk, Pt, deg, rng, scale=sc)

    def chk(mon, ok, cls, what, **case):
        rec.check(mon, ok, cls, "%s: %s" % (cv, what), case=dict(case, curve=cv), facts={"curve": cv, "identity": cls})

    mult = 1 if quick else 12
    # ---------------------------------------------------------------- (a0) the identity as an operand, every representative, vs reference
    if role in (0, 3):
        a, b = rng.randrange(1, S.r), rng.randrange(1, S.r)
        Pt, Q = S.E1.mul(S.g1, a), S.E2.mul(S.g2, b)
        for rep_ in CG.INF_REPS:
            for Qm, Pm in ((None, Pt), (Q, None), (None, None)):
                rec.case("identity-operand", ("idop", cv, rep_, Qm is None, Pm is None), sample={"curve": cv, "identity_as": rep_, "Q_is_identity": Qm is None, "P_is_identity": Pm is None})
                s1, v1 = call(pr.pairing, CG.to_lib(refk, Qm, 2), CG.to_lib(refk, Pm, 1))
                qo = CG.to_lib(optk, Qm, 2, rng, inf_rep=rep_) if Qm is None else Lo(Qm, 2)
                po_ = CG.to_lib(optk, Pm, 1, rng, inf_rep=rep_) if Pm is None else Lo(Pm, 1)
                s2, v2 = call(po.pairing, qo, po_)
                s3, v3 = call(po.pairing, qo, po_, final_exponentiate=False)
                chk("B-c12.ref-vs-opt", s1 == "ok" and s2 == "ok" and tup(v1, S.p) == tup(v2, S.p) == F12.one, "identity-operand",
                    "pairing with the identity %s: reference %r, optimized %r" % (rep_, v1 if s1 != "ok" else tup(v1, S.p)[:2], v2 if s2 != "ok" else tup(v2, S.p)[:2]))
                chk("B-c12.ref-vs-opt", s3 == "ok" and F12.pow(tup(v3, S.p), (S.p ** 12 - 1) // S.r) == F12.one, "identity-operand",
                    "optimized pairing(final_exponentiate=False) with the identity %s does not exponentiate to the unit" % rep_)
    rec.case("identity-operand", None, nontrivial=False)
    # ---------------------------------------------------------------- (a) reference vs optimized
    if role in (0, 1):
        for j in range(2 * mult):
            a = rng.choice([1, 2, S.r - 1, rng.randrange(1, S.r), rng.randrange(1, S.r)])
            b = rng.choice([1, S.r - 1, rng.randrange(1, S.r), rng.randrange(1, S.r)])
            Pt, Q = S.E1.mul(S.g1, a), S.E2.mul(S.g2, b)
            rec.case("%s:ref-vs-opt" % cv, ("rvo", cv, a, b), nontrivial=not (a in (1, 2, 27, 37, 999) and b in (1, 2, 27, 37, 999)),
                     sample={"curve": cv, "a_bits": a.bit_length(), "b_bits": b.bit_length()})
            s1, v1 = call(pr.pairing, CG.to_lib(refk, Q, 2), CG.to_lib(refk, Pt, 1))
            s2, v2 = call(po.pairing, Lo(Q, 2), Lo(Pt, 1))
            if s1 != "ok" or s2 != "ok":
                chk("B-c12.ref-vs-opt", False, "ref-vs-opt", "a pairing raised on subgroup points: ref %r / opt %r" % (v1 if s1 != "ok" else None, v2 if s2 != "ok" else None), a=a, b=b)
                continue
            chk("B-c12.ref-vs-opt", tup(v1, S.p) == tup(v2, S.p), "ref-vs-opt", "optimized pairing != reference pairing", a=a, b=b)
            # every sparse rescaling of Q and an operand sharing raw X, Y with the previous P (other Z) must give the same / the reference value
            for sc_ in CG.sparse_scales(S.F2, Q, getattr(S, "shift", None))[: (6 if quick else 30)]:
                rec.case("opt:sparse-rescaled", None, nontrivial=False)
                s3, v3 = call(po.pairing, CG.to_lib(optk, Q, 2, rng, scale=sc_), Lo(Pt, 1))
                chk("B-c12.ref-vs-opt", s3 == "ok" and tup(v3, S.p) == tup(v1, S.p), "ref-vs-opt", "optimized pairing with Q rescaled by %r != reference pairing" % (sc_,), a=a, b=b)
            if j == 0:
                sp_ = CG.rand_scale(S.F1, rng)
                Xr, Yr = S.F1.mul(Pt[0], sp_)[0], S.F1.mul(Pt[1], sp_)[0]
                FQ1 = co.FQ
                q_obj = Lo(Q, 2)
                call(po.pairing, q_obj, (FQ1(Xr), FQ1(Yr), FQ1(sp_[0])))
                for z in CG.same_xy_other_z(S.E1, Xr, Yr, rng):
                    aff = ((Xr * pow(z, -1, S.p) % S.p,), (Yr * pow(z, -1, S.p) % S.p,)) if z else None
                    if not z or z == sp_[0] or not S.E1.on_curve(aff) or S.E1.mul(aff, S.r) is not None:
                        continue
                    rec.case("related-operands", None, nontrivial=False)
                    s4, v4 = call(po.pairing, q_obj, (FQ1(Xr), FQ1(Yr), FQ1(z)))
                    s5, v5 = call(pr.pairing, CG.to_lib(refk, Q, 2), CG.to_lib(refk, aff, 1))
                    chk("B-c12.ref-vs-opt", s4 == "ok" and s5 == "ok" and tup(v4, S.p) == tup(v5, S.p), "ref-vs-opt",
                        "optimized pairing != reference pairing on an operand that shares raw X, Y with the previous operand", a=a, b=b)
    # ---------------------------------------------------------------- (b) split final exponentiation
    miller_vals = []
    if role == 2 or role == 3:
        nprod = (3 if quick else 30) if role == 2 else 1
        for j in range(nprod):
            k = 1 + (j + rec.shard // 8) % (3 if quick else 6)
            pairs = []
            for t in range(k):
                a, b = rng.randrange(1, S.r), rng.randrange(1, S.r)
                pairs.append((S.E2.mul(S.g2, b), S.E1.mul(S.g1, a)))
            if j % 3 == 1:
                pairs.append((None, pairs[0][1]) if j % 2 else (pairs[0][0], None))       # identity factor
                rec.case("product:identity-factor", None, nontrivial=False)
            rec.case("%s:split-product" % cv, ("split", cv, tuple(pairs)), sample={"curve": cv, "factors": len(pairs)})
            acc_raw = FQ12.one()
            acc_model = F12.one
            prod_full = F12.one
            ok = True
            for t_, (Q, Pt) in enumerate(pairs):
                if (j + t_) % 2:
                    # the very same operand objects with both values of the flag, in both orders (a verifier that also
                    # wants the individual pairing does exactly this)
                    q_, p_ = Lo(Q, 2), Lo(Pt, 1)
                    rec.case("same-operands-both-flags", None, nontrivial=False)
                    if (j + t_) % 4 == 1:
                        s1, m = call(po.pairing, q_, p_, final_exponentiate=False)
                        s2, f = call(po.pairing, q_, p_)
                    else:
                        s2, f = call(po.pairing, q_, p_)
                        s1, m = call(po.pairing, q_, p_, final_exponentiate=False)
                else:
                    s1, m = call(po.pairing, Lo(Q, 2), Lo(Pt, 1), final_exponentiate=False)
                    s2, f = call(po.pairing, Lo(Q, 2), Lo(Pt, 1))
                if s1 != "ok" or s2 != "ok":
                    ok = False
                    chk("B-c12.split", False, "split", "pairing raised: %r %r" % (m, f))
                    break
                if Q is None or Pt is None:
                    # the reference pairing of the identity with anything is the unit (with and without the final exponentiation)
                    chk("B-c12.ref-vs-opt", tup(f, S.p) == F12.one and F12.pow(tup(m, S.p), (S.p ** 12 - 1) // S.r) == F12.one, "identity-operand",
                        "optimized pairing with the identity as %s argument is not the unit" % ("first" if Q is None else "second"))
                miller_vals.append(tup(m, S.p))
                acc_raw = acc_raw * m
                acc_model = F12.mul(acc_model, tup(m, S.p))
                prod_full = F12.mul(prod_full, tup(f, S.p))
            if not ok:
                continue
            s3, fe = call(po.final_exponentiate, acc_raw)
            chk("B-c12.split", s3 == "ok" and tup(fe, S.p) == prod_full, "split",
                "final_exponentiate(prod pairing(.., final_exponentiate=False)) != prod pairing(..)", pairs=pairs)
            # the library's own product must be the model product (else the split form is not what verifiers compute)
            chk("B-c12.split", tup(acc_raw, S.p) == acc_model, "split", "library FQ12 product of Miller values differs from the model product")
        # verifier shapes: e(S, G1) e(H, -PK) == 1 for S = sk*H, PK = sk*G1; EVM-style product with an identity factor
        for j in range(1 if quick else 6):
            sk, h = rng.randrange(1, S.r), rng.randrange(1, S.r)
            H = S.E2.mul(S.g2, h)
            Sg = S.E2.mul(H, sk)
            PK = S.E1.mul(S.g1, sk)
            rec.case("%s:verifier-shape" % cv, ("vs", cv, sk, h), sample={"curve": cv, "shape": "e(S, G1) e(H, -PK)"})
            s1, m1 = call(po.pairing, Lo(Sg, 2), Lo(S.g1, 1), final_exponentiate=False)
            s2, m2 = call(po.pairing, Lo(H, 2), Lo(S.E1.neg(PK), 1), final_exponentiate=False)
            if s1 == "ok" and s2 == "ok":
                s3, fe = call(po.final_exponentiate, m1 * m2)
                chk("B-c12.split", s3 == "ok" and tup(fe, S.p) == F12.one, "verifier-shape", "e(S, G1) e(H, -PK) != 1 for an honest signature", sk=sk, h=h)
                # and a wrong signature must not give the unit
                s4, m3 = call(po.pairing, Lo(S.E2.add(Sg, H), 2), Lo(S.g1, 1), final_exponentiate=False)
                if s4 == "ok":
                    s5, fe2 = call(po.final_exponentiate, m3 * m2)
                    chk("B-c12.split", s5 == "ok" and tup(fe2, S.p) != F12.one, "verifier-shape", "split form gives the unit for a forged signature", sk=sk, h=h)
            else:
                chk("B-c12.split", False, "verifier-shape", "pairing raised")
    if (role == 3 and rec.shard in (6, 7)) or not quick:
        threads_phase(rec)
    else:
        rec.case("threads:pairings", None, nontrivial=False)
    # ---------------------------------------------------------------- (c) final exponentiation / Frobenius on arbitrary elements
    if role == 3 or role == 2:
        e_final = (S.p ** 12 - 1) // S.r
        els = fq12_elements(S, rng, FQ12, miller_vals)
        if role == 2:
            els = els[-3:]
        exp_by_p = getattr(po, "exp_by_p", None)
        if exp_by_p is None and cv == "bls12_381":
            rec.unavailable.append("optimized_bls12_381.optimized_pairing.exp_by_p")
        for kind, t in els * (1 if quick else 3):
            if not quick and kind == "random":
                t = tuple(rng.randrange(S.p) for _ in range(12))
            rec.case("fq12:" + kind, None, nontrivial=False)
            x = FQ12(list(t))
            rec.case("%s:finalexp" % cv, ("fe", cv, t), nontrivial=kind != "one", sample={"curve": cv, "element": kind})
            s1, fe = call(po.final_exponentiate, x)
            if kind == "zero" and s1 != "ok":
                continue                                           # 0 has no inverse: the fast path may raise; plain exponentiation gives 0
            chk("B-c12.finalexp", s1 == "ok" and tup(fe, S.p) == F12.pow(t, e_final), "finalexp", "final_exponentiate(x) != x^((p^12-1)/r) for a %s element" % kind, x=t)
            if exp_by_p is not None:
                rec.case("%s:exp_by_p" % cv, ("frob", cv, t), nontrivial=kind != "one")
                s3, fp = call(exp_by_p, x)
                chk("B-c12.finalexp", s3 == "ok" and tup(fp, S.p) == F12.pow(t, S.p), "exp_by_p", "exp_by_p(x) != x^p for a %s element" % kind, x=t)
            # reference final_exponentiate is the plain power; it must agree too
            rfe = getattr(pr, "final_exponentiate", None)
            if rfe is not None and kind in ("random", "miller-output", "sparse"):
                s4, v = call(rfe, cr.FQ12(list(t)))
                chk("B-c12.finalexp", s4 == "ok" and tup(v, S.p) == F12.pow(t, e_final), "finalexp", "reference final_exponentiate(x) != x^((p^12-1)/r)", x=t)


def threads_phase(rec):
    """Pairings of both optimized modules (and final exponentiations) while other threads compute pairings."""
    from .common import threaded_reprobe
    rng = rec.rng
    thunks = []
    for cv in CURVES:
        S = params.suite(cv)
        optk = "opt." + cv
        co, po, _ = CG.lib(optk)
        for j in range(2):
            a, b = rng.randrange(1, S.r), rng.randrange(1, S.r)
            Pt, Q = CG.to_lib(optk, S.E1.mul(S.g1, a), 1, rng), CG.to_lib(optk, S.E2.mul(S.g2, b), 2, rng)
            fe = bool(j)
            thunks.append(("%s.pairing[final_exponentiate=%s]" % (optk, fe), lambda po=po, Q=Q, Pt=Pt, fe=fe, p=S.p: tup(po.pairing(Q, Pt, fe), p)))
        x = co.FQ12([rng.randrange(S.p) for _ in range(12)])
        thunks.append(("%s.final_exponentiate" % optk, lambda po=po, x=x, p=S.p: tup(po.final_exponentiate(x), p)))
    threaded_reprobe(rec, "pairings", thunks, threads=3, rounds=1 if rec.tier == "quick" else 3)


def replay(rec, case):
    print("replay: C12 identities involve several pairing calls; re-run ./check C12 with the recorded VERIF_SEED to reproduce")
