"""C15 — expand_message_xmd and hash_to_field match RFC 9380 for all parameters."""
from __future__ import annotations

import itertools

from ..monitors import h2c as mon
from ..monitors.install import import_all
from .common import HASHES, call

SELFTESTS = ["h2c"]
DECIDING = ["M-h2c.xmd", "M-h2c.h2f"]
RULE = ("cases = calls of expand_message_xmd / hash_to_field_FQ / hash_to_field_FQ2 on the real module, each judged by a "
        "monitor wrapped around the function against pv.model.h2c (RFC 9380 5.3.1 / 5.2 written on hashlib only); "
        "grid of message lengths x DST lengths x output lengths x hash functions x counts plus random fill; "
        "distinct = distinct (function, msg, DST, length/count, hash); non-trivial = anything but the RFC K.1 vectors' "
        "(message, DST, length) with SHA-256"
        " A concurrent phase repeats expansions (up to 255 blocks, five tags, all hash functions) and hash_to_field calls in 4 threads and requires the single-threaded values.")
ASSUMPTIONS = ["hashlib digest functions are correct (shared by model and library)"]


def shards(tier):
    return 8 if tier == "quick" else 16


def required_classes(tier):
    return ["threads:xmd+hash_to_field", "soak:distinct-messages", "xmd:len-from-literal", "xmd:valid", "xmd:dst>255", "xmd:ell>255", "xmd:len=0", "h2f:FQ", "h2f:FQ2"] + ["xmd:hash=" + h for h in HASHES]


MSG_LENS_Q = [0, 1, 55, 56, 63, 64, 65, 119, 128, 1024]
MSG_LENS_T = [0, 1, 2, 31, 32, 33, 55, 56, 57, 63, 64, 65, 111, 112, 119, 120, 127, 128, 129, 135, 136, 137, 143, 144, 1024, 4096]
DST_LENS = [0, 1, 43, 254, 255, 256, 300]
RFC_VECTOR_KEYS = {("", 32), ("abc", 32), ("abcdef0123456789", 32), ("", 128), ("abc", 128), ("abcdef0123456789", 128)}


def out_lens(H):
    b = H().digest_size
    return sorted(set([0, 1, 31, 32, 33, 64, b - 1, b, b + 1, 2 * b, 2 * b + 1, 255 * b - 1, 255 * b, 255 * b + 1, 65535, 65536]))


def run(rec):
    import_all()
    mon.install(["xmd", "h2f1", "h2f2"])
    import py_ecc.bls.hash as hm
    import py_ecc.bls.hash_to_curve as h2c
    rng = rec.rng
    quick = rec.tier == "quick"
    msg_lens = MSG_LENS_Q if quick else MSG_LENS_T
    i = 0
    # --- expand_message_xmd grid
    for hname, H in HASHES.items():
        for dl in DST_LENS:
            for ol in out_lens(H):
                for ml in (msg_lens if not quick else rng.sample(msg_lens, 3)):
                    i += 1
                    if not rec.mine(i):
                        continue
                    msg = rng.randbytes(ml)
                    dst = rng.randbytes(dl)
                    b = H().digest_size
                    ell = -(-ol // b)
                    if dl > 255:
                        cls = "xmd:dst>255"
                    elif ell > 255:
                        cls = "xmd:ell>255"
                    elif ol == 0:
                        cls = "xmd:len=0"
                    else:
                        cls = "xmd:valid"
                    rec.case(cls, ("xmd", msg, dst, ol, hname), sample={"fn": "expand_message_xmd", "msg_len": ml, "dst_len": dl, "len_in_bytes": ol, "hash": hname})
                    rec.case("xmd:hash=" + hname, None, nontrivial=False)
                    call(hm.expand_message_xmd, msg, dst, ol, H)
    # message / output lengths taken from integer literals in the module's own source (chunk sizes, thresholds), with their
    # neighbours and their roundings to each hash function's block and digest size
    from .common import harvest_int_literals
    lits = [v for v in harvest_int_literals(["py_ecc.bls.hash", "py_ecc.bls.hash_to_curve"], 2, 4 * 10 ** 6)]
    rec.notes.setdefault("integer_literals_harvested", lits[:40])
    for hname, H in HASHES.items():
        bs, ds = H().block_size, H().digest_size
        lens = set()
        for v in lits:
            for w in (v - 1, v, v + 1, v - v % bs, v - v % bs + bs, v - v % ds, 2 * (v - v % bs), v - bs, v + bs, v * bs, v * ds, 2 * v * bs, v * bs - 48):
                if 0 <= w <= 4 * 10 ** 6:
                    lens.add(w)
        for ml in sorted(lens):
            i += 1
            if not rec.mine(i):
                continue
            rec.case("xmd:len-from-literal", ("xmdlit", hname, ml), sample={"fn": "expand_message_xmd", "msg_len": ml, "hash": hname} if ml > 300 else None)
            msg = rng.randbytes(ml) if ml < 70000 else (rng.randbytes(4096) * (ml // 4096 + 1))[:ml]
            call(hm.expand_message_xmd, msg, b"QUUX-V01-CS02-with-expander", rng.choice([32, 96, 2 * ds + 1]), H)
            if ml <= 255 * ds:
                call(hm.expand_message_xmd, b"abc", b"dst", ml, H)
    # soak: distinct (message, tag) pairs through expand_message_xmd and hash_to_field, first ones re-probed
    if rec.shard == 0 or not quick:
        from .common import soak_size, soak_then_reprobe
        first = [(rng.randbytes(20), rng.randbytes(10)) for _ in range(3)]

        def distinct_msgs():
            j = 0
            while True:
                j += 1
                mm = b"soak-%d" % j
                yield (lambda mm=mm: (call(hm.expand_message_xmd, mm, b"dst", 48, HASHES["sha256"]), call(h2c.hash_to_field_FQ2, mm, 1, b"dst", HASHES["sha256"])))
        soak_then_reprobe(rec, "distinct-messages", [lambda a=a, b=b: (call(hm.expand_message_xmd, a, b, 70, HASHES["sha256"]), call(h2c.hash_to_field_FQ, a, 2, b, HASHES["sha256"]), call(hm.expand_message_xmd, a, b, 70, HASHES["sha512"])) for a, b in first],
                          distinct_msgs(), soak_size(["py_ecc.bls.hash", "py_ecc.bls.hash_to_curve"]))
    else:
        rec.case("soak:distinct-messages", None, nontrivial=False)
    # RFC-style fixed DSTs / printable messages too (realistic shape)
    for j in range(40 if quick else 400):
        i += 1
        if not rec.mine(i):
            continue
        hname = rng.choice(list(HASHES))
        msg = rng.choice([b"", b"abc", b"abcdef0123456789", b"q128_" + b"q" * 128, b"a512_" + b"a" * 512, rng.randbytes(rng.randrange(300))])
        dst = rng.choice([b"QUUX-V01-CS02-with-expander", b"BLS_SIG_BLS12381G2_XMD:SHA-256_SSWU_RO_NUL_", rng.randbytes(rng.randrange(256))])
        ol = rng.choice([32, 128, 256, rng.randrange(0, 600)])
        trivial = hname == "sha256" and dst == b"QUUX-V01-CS02-with-expander" and ol in (32, 128) and msg in (b"", b"abc", b"abcdef0123456789", b"q128_" + b"q" * 128, b"a512_" + b"a" * 512)
        rec.case("xmd:valid", ("xmd", msg, dst, ol, hname), nontrivial=not trivial)
        call(hm.expand_message_xmd, msg, dst, ol, HASHES[hname])
    # --- hash_to_field
    counts = list(range(1, 9)) + [0, 16, 33]
    for hname, H in HASHES.items():
        for count in counts:
            for fn, cls, m in ((h2c.hash_to_field_FQ, "h2f:FQ", 1), (h2c.hash_to_field_FQ2, "h2f:FQ2", 2)):
                for rep in range(1 if quick else 4):
                    i += 1
                    if not rec.mine(i):
                        continue
                    msg = rng.randbytes(rng.choice(msg_lens))
                    dst = rng.randbytes(rng.choice([0, 1, 43, 255]))
                    rec.case(cls, (cls, msg, dst, count, hname), sample={"fn": fn.__name__, "msg_len": len(msg), "dst_len": len(dst), "count": count, "hash": hname})
                    call(getattr(h2c, fn.__name__), msg, count, dst, H)
    if rec.shard in (1, 5) or not quick:
        threads_phase(rec, hm, h2c)
    else:
        rec.case("threads:xmd+hash_to_field", None, nontrivial=False)


def threads_phase(rec, hm, h2c):
    """The same expansions while other threads expand other messages under other tags / hash functions."""
    from .common import threaded_reprobe
    rng = rec.rng
    thunks = []
    tags = [b"BLS_SIG_BLS12381G2_XMD:SHA-256_SSWU_RO_NUL_", b"BLS_POP_BLS12381G2_XMD:SHA-256_SSWU_RO_POP_", b"", rng.randbytes(255), b"QUUX-V01-CS02-with-expander"]
    for j, (hname, H) in enumerate(HASHES.items()):
        b = H().digest_size
        for ol in (255 * b, 64 * b + 1, 2 * b):
            msg, dst = rng.randbytes(rng.choice([0, 33, 200])), tags[(j + ol) % len(tags)]
            thunks.append(("expand_message_xmd[%s,%d]" % (hname, ol), lambda msg=msg, dst=dst, ol=ol, H=H: hm.expand_message_xmd(msg, dst, ol, H)))
    for j in range(4):
        msg, dst, H = rng.randbytes(40), tags[j % len(tags)], list(HASHES.values())[j % len(HASHES)]
        thunks.append(("hash_to_field_FQ2[count=%d]" % (2 + j), lambda msg=msg, dst=dst, H=H, c=2 + j: [tuple(int(c_) for c_ in e.coeffs) for e in h2c.hash_to_field_FQ2(msg, c, dst, H)]))
        thunks.append(("hash_to_field_FQ[count=%d]" % (1 + j), lambda msg=msg, dst=dst, H=H, c=1 + j: [int(e) for e in h2c.hash_to_field_FQ(msg, c, dst, H)]))
    threaded_reprobe(rec, "xmd+hash_to_field", thunks, threads=4, rounds=6 if rec.tier == "quick" else 60)


def replay(rec, case):
    import_all()
    mon.install(["xmd", "h2f1", "h2f2"])
    import py_ecc.bls.hash as hm
    import py_ecc.bls.hash_to_curve as h2c
    if case.get("fn") == "threads":
        return threads_phase(rec, hm, h2c)
    H = HASHES[case["hash"]]
    if case["fn"] == "expand_message_xmd":
        call(hm.expand_message_xmd, case["msg"], case["dst"], case["len"], H)
    else:
        call(getattr(h2c, case["fn"]), case["msg"], case["count"], case["dst"], H)
