"""C09 — BLS outputs are the byte strings mandated by the IETF ciphersuites."""
from __future__ import annotations

from ..model import bls as MB
from ..model import params
from ..monitors import bls as bmon
from ..monitors.install import import_all
from .common import call, msg_pool, scalar_pool

SELFTESTS = ["fields", "params", "zcash", "h2c", "bls"]
DECIDING = ["M-bls.sktopk", "M-bls.sign", "M-bls.aggregate"]
SCOPE = ["M-bls.sktopk", "M-bls.sign", "M-bls.aggregate", "B-c09"]
RULE = ("cases = calls of SkToPk, Sign, PopProve and Aggregate on the three ciphersuite classes, each judged by a monitor wrapped around the "
        "class method against pv.model.bls: an independent end-to-end pipeline (XMD -> hash_to_field -> straight-line SSWU -> isogeny -> "
        "h_eff -> affine scalar multiplication -> ZCash encoding) with the DST / POP tags written out from the draft; anchored by the "
        "consensus-spec sign vector, SkToPk(1) and EIP-2333 in the model self-test. Keys: 1, 2, 3, r-2, r-1, (r+-1)/2, one value per bit "
        "length 1..255 (2^(k-1) or 2^k - 1), random 255-bit, low/high Hamming weight; messages: empty, single bytes, SHA-256 padding/block "
        "boundary lengths 55..129, binary, 1-4 KiB, the public key itself; aggregates of 1..8 signatures incl. repeated and inverse ones. "
        "distinct = distinct (function, suite, key, message); non-trivial = key >= 2^80 or boundary key, or message not short printable ASCII")
ASSUMPTIONS = ["the IETF draft v4 suite strings BLS_SIG_BLS12381G2_XMD:SHA-256_SSWU_RO_{NUL,AUG,POP}_ and BLS_POP_..._POP_ as transcribed in pv.model.bls"]
R = params.BLS_R


def shards(tier):
    return 16


def required_classes(tier):
    return ["msg:len-from-literal", "soak:distinct-secret-keys", "sign:custom-suite", "sktopk", "sign:basic", "sign:aug", "sign:pop", "popprove", "aggregate", "key:boundary", "key:bitlen", "key:random", "msg:empty", "msg:block-boundary", "msg:long"]


def _printable_short(m):
    return len(m) <= 32 and all(32 <= c < 127 for c in m)


def key_classes(rng, quick):
    out = [("boundary", k) for k in (1, 2, 3, R - 2, R - 1, (R - 1) // 2, (R + 1) // 2)]
    for k in range(1, 256):
        vals = [(1 << (k - 1)), (1 << k) - 1]
        for v in (vals if not quick else [vals[k % 2]]):
            if 1 <= v < R:
                out.append(("bitlen", v))
    from . import curvegen as CG
    for k in CG.endo_scalars(R)[: (8 if quick else 40)]:
        if 1 <= k % R < R:
            out.append(("boundary", k % R))                                 # eigenvalues of the curve endomorphism and neighbours
    from .common import bit_patterns
    for v in bit_patterns(255, rng, 2 if quick else 10):
        if 1 <= v < R:
            out.append(("bitlen", v))                                         # structured bit patterns (zero bytes, runs, low/high weight)
    for _ in range(8 if quick else 200):
        out.append(("random", rng.randrange(1, R)))
    for _ in range(2 if quick else 30):
        out.append(("random", (1 << rng.randrange(200, 255)) | (1 << rng.randrange(0, 200))))              # low weight
        out.append(("random", ((1 << 254) - 1) ^ (1 << rng.randrange(0, 254))))                             # high weight
    return out


def run(rec):
    import_all()
    cs = bmon.install(pair_arg=False)
    suites = {"basic": cs.G2Basic, "aug": cs.G2MessageAugmentation, "pop": cs.G2ProofOfPossession}
    names = list(suites)
    rng = rec.rng
    quick = rec.tier == "quick"
    keys = key_classes(__import__("random").Random(rec.seed * 7919 + 17), quick)       # same key list in every shard, partitioned below
    msgs = msg_pool(rng, big=not quick)
    i = 0
    my_sigs = {n: [] for n in names}
    for kcls, sk in keys:
        i += 1
        if not rec.mine(i):
            continue
        suite = names[i % 3]
        S = suites[suite]
        rec.case("key:" + kcls, None, nontrivial=False)
        nontriv_key = sk >= (1 << 80) or kcls == "boundary"
        rec.case("sktopk", ("pk", sk), nontrivial=nontriv_key, sample={"fn": "SkToPk", "suite": suite, "sk_bits": sk.bit_length()})
        st, pk = call(S.SkToPk, sk)
        reps = 1 if quick else 3
        for rep in range(reps):
            which = (i + rep) % 4
            if which == 0:
                m = rng.choice([b"", bytes([rng.randrange(256)])])
                rec.case("msg:empty", None, nontrivial=False)
            elif which == 1:
                m = rng.randbytes(rng.choice([55, 56, 63, 64, 65, 119, 120, 127, 128, 129, 7, 8, 15, 16, 17]))
                rec.case("msg:block-boundary", None, nontrivial=False)
            elif which == 2:
                m = rng.choice(msgs)
                if len(m) >= 1024:
                    rec.case("msg:long", None, nontrivial=False)
            else:
                m = pk if st == "ok" and isinstance(pk, bytes) else b"pk"
            rec.case("sign:" + suite, ("sign", suite, sk, m), nontrivial=nontriv_key or not _printable_short(m),
                     sample={"fn": "Sign", "suite": suite, "sk_bits": sk.bit_length(), "msg_len": len(m)})
            st2, sig = call(S.Sign, sk, m)
            if st2 == "ok" and isinstance(sig, bytes) and len(sig) == 96:
                my_sigs[suite].append(sig)
        if i % 3 == 2 or not quick:
            rec.case("popprove", ("pop", sk), nontrivial=nontriv_key, sample={"fn": "PopProve", "sk_bits": sk.bit_length()})
            st3, prf = call(suites["pop"].PopProve, sk)
            if st3 == "ok" and isinstance(prf, bytes) and len(prf) == 96:
                my_sigs["pop"].append(prf)
    # user-derived suites: outputs follow the same construction with the derived suite's hash function and tags
    custom = bmon.custom_suites(cs)
    for j, (key, Sx) in enumerate(custom.items()):
        sk = rng.randrange(1, R)
        m = rng.randbytes(rng.choice([0, 16, 64]))
        rec.case("sign:custom-suite", ("sign", key, sk, m), sample={"fn": "Sign", "suite": key})
        call(Sx.Sign, sk, m)
        call(Sx.SkToPk, sk)
        if key.startswith("pop") and hasattr(Sx, "PopProve"):
            call(Sx.PopProve, sk)
    # soak: distinct secret keys through SkToPk, the first ones re-probed
    if rec.shard == 6 or not quick:
        from .common import soak_size, soak_then_reprobe
        first = [rng.randrange(1, R) for _ in range(2)]
        Sx = suites["basic"]

        def distinct_sks():
            j = 0
            base = rng.randrange(1, R // 2)
            while True:
                j += 1
                yield (lambda k=base + j: call(Sx.SkToPk, k))
        soak_then_reprobe(rec, "distinct-secret-keys", [lambda k=k: (call(Sx.SkToPk, k), call(Sx.Sign, k, b"soak probe")) for k in first], distinct_sks(),
                          soak_size(["py_ecc.bls.ciphersuites", "py_ecc.bls.g2_primitives", "py_ecc.bls.point_compression"], cap=2500 if quick else 20000))
    else:
        rec.case("soak:distinct-secret-keys", None, nontrivial=False)
    # message lengths built from integer literals of the hashing modules times the hash block size (streaming chunk sizes)
    if rec.shard in (10, 11, 12):
        from .common import harvest_int_literals
        lits = [v for v in harvest_int_literals(["py_ecc.bls.hash", "py_ecc.bls.hash_to_curve", "py_ecc.bls.ciphersuites"], 100, 10 ** 6)][-4:]
        suite_ = names[rec.shard % 3]
        for v in lits:
            for ml in (v * 64, v * 64 - 48, v):
                if 0 < ml <= 4 * 10 ** 6:
                    m_ = (rng.randbytes(4096) * (ml // 4096 + 1))[:ml]
                    rec.case("msg:len-from-literal", ("signlit", suite_, ml), sample={"fn": "Sign", "suite": suite_, "msg_len": ml})
                    call(suites[suite_].Sign, rng.randrange(1, R), m_)
    rec.case("msg:len-from-literal", None, nontrivial=False)
    # long message once per run
    if rec.shard == 0:
        m = rng.randbytes(4096 if quick else 65536)
        rec.case("msg:long", None, nontrivial=False)
        rec.case("sign:basic", ("sign", "basic", 12345, m))
        call(suites["basic"].Sign, rng.randrange(1, R), m)
    else:
        rec.case("msg:long", None, nontrivial=False)
    # Aggregate outputs
    pool = [s for n in names for s in my_sigs[n]]
    for j in range(6 if quick else 60):
        if not pool:
            break
        n = 1 + (j + rec.shard) % 8
        sigs = [rng.choice(pool) for _ in range(n)]
        if j % 3 == 0 and n >= 2:
            sigs[1] = sigs[0]                                       # repeated signature
        if j % 4 == 1:
            sigs.append(MB.zcash.enc_g2(None))                      # identity element in the list
        if j % 5 == 2:
            Pt = MB.zcash.dec_g2(sigs[0])
            sigs.append(MB.zcash.enc_g2(params.BLS_E2.neg(Pt)))     # inverse: partial cancellation
        if j % 6 == 3:
            from . import curvegen as CG
            Pt = MB.zcash.dec_g2(sigs[0])
            sigs.insert(1, MB.zcash.enc_g2(CG.endo(params.BLS_FP2, Pt, 1 + j % 2)))          # same y, x times a cube root of unity
        rec.case("aggregate", ("agg", tuple(sigs)), sample={"fn": "Aggregate", "n": len(sigs)})
        call(suites[names[j % 3]].Aggregate, sigs)


def replay(rec, case):
    import_all()
    cs = bmon.install(pair_arg=False)
    suites = {"basic": cs.G2Basic, "aug": cs.G2MessageAugmentation, "pop": cs.G2ProofOfPossession}
    fn = case["fn"]
    S = suites.get(case.get("suite", "basic"), cs.G2Basic)
    if fn == "SkToPk":
        call(S.SkToPk, case["sk"])
    elif fn == "Sign":
        call(S.Sign, case["sk"], case["msg"])
    elif fn == "PopProve":
        call(suites["pop"].PopProve, case["sk"])
    elif fn == "Aggregate":
        call(S.Aggregate, case["sigs"])
