"""C05 — pairings are bilinear, non-degenerate, unit on infinity, and refuse off-curve input."""
from __future__ import annotations

from ..model import params
from ..monitors import conv
from ..monitors.install import import_all, watch
from .. import core
from . import curvegen as CG
from .common import call

SELFTESTS = ["fields", "params", "scalar_mul"]
DECIDING = ["B-pair.rep", "B-pair.bilinear", "B-pair.additive", "B-pair.negation", "B-pair.order", "B-pair.infinity", "B-pair.offcurve", "M-pairing.observed"]
RULE = ("cases = identity instances evaluated on values RETURNED by the real `pairing` of each of the four implementations (a monitor wrapped "
        "around each pairing records every call and value); the FQ12 values are read as raw coefficient tuples and the identities are evaluated "
        "in pv.model GF(p^12) (own polynomial arithmetic with the module's modulus), so a defect in the library's own FQ12 ** or * cannot hide "
        "a pairing defect. Per instance with P = a*G1', Q = b*G2' (G1', G2' random multiples of the generators; a, b from {0, 1, 2, r-1, r, r+1, "
        "random 254/255-bit}): e(bQ', aP') = e(Q', P')^(ab); e(Q, P1+P2) = e(Q,P1) e(Q,P2); e(Q1+Q2, P) = e(Q1,P) e(Q2,P); e(-Q,P) e(Q,P) = 1 = "
        "e(Q,-P) e(Q,P); e(G2,G1) != 1 and e(G2,G1)^r = 1; infinity in either argument (optimized: four representatives) gives 1; off-curve "
        "arguments (perturbed coordinate, wrong curve coefficient) must raise. Optimized inputs are also presented in random projective "
        "rescalings. distinct = distinct (implementation, Q, P); non-trivial = scalars not in {1, 2, 27, 37, 999} or rescaled / infinite / "
        "off-curve operands")
ASSUMPTIONS = ["'refused with an error' = any exception instead of a returned value", "r is prime, so e != 1 and e^r = 1 give order exactly r"]

REPLAY_BY_SHARD = True


def shards(tier):
    return 16


def required_classes(tier):
    out = []
    for mk in CG.MODKEYS:
        out += ["%s:%s" % (mk, c) for c in ("bilinear", "additive-P", "additive-Q", "negation", "order", "infinity", "offcurve", "offcurve-vs-infinity")]
    out += ["opt.bn128:related-operands", "opt.bls12_381:related-operands", "opt.bn128:sparse-rescaling", "opt.bls12_381:sparse-rescaling", "opt:rescaled", "scalar:0", "scalar:r-1", "scalar:r+1", "scalar:random"]
    return out


_LOG = []


def h_pairing(modkey):
    def h(a, k, res, exc):
        rec = core.cur()
        rec.ok("M-pairing.observed")
        rec.event("pairing-call:%s:%s" % (modkey, "raised" if exc is not None else "returned"))
    return h


def scalars(S, rng):
    r = S.r
    pool = [("0", 0), ("1", 1), ("2", 2), ("r-1", r - 1), ("r", r), ("r+1", r + 1), ("random", rng.randrange(1 << 253, r)), ("random", rng.randrange(1, r)),
            ("random", rng.randrange(1, r))]
    return pool


def instance(rec, modkey, rng, heavy, base_cache):
    c, pm, pkg = CG.lib(modkey)
    S = CG.suite_of(modkey)
    F12 = S.F12
    opt = CG.rep_of(modkey) == "opt"
    one = F12.one

    def L(Pt, deg):
        sc = None
        if opt and rng.random() < 0.5 and Pt is not None:
            sc = CG.rand_scale(S.F1 if deg == 1 else S.F2, rng)
            rec.case("opt:rescaled", None, nontrivial=False)
        return CG.to_lib(modkey, Pt, deg, rng, scale=sc, inf_rep=rng.choice(CG.INF_REPS))

    def e(Q, Pt, cls, nontrivial=True):
        rec.case("%s:%s" % (modkey, cls), ("pair", modkey, Q, Pt), nontrivial=nontrivial,
                 sample={"impl": modkey, "identity": cls, "Q": Q, "P": Pt})
        st, v = call(pm.pairing, L(Q, 2), L(Pt, 1))
        if st != "ok":
            rec.check("B-pair.bilinear", False, cls, "%s.pairing raised %r on subgroup points" % (modkey, v), case={"impl": modkey, "Q": Q, "P": Pt},
                      facts={"impl": modkey, "kind": "raise"})
            return None
        try:
            t = tuple(c_ % S.p for c_ in conv.el(v))
            assert len(t) == 12
            return t
        except Exception:
            rec.check("B-pair.bilinear", False, cls, "%s.pairing returned %r, not a degree-12 element" % (modkey, v), facts={"impl": modkey, "kind": "type"})
            return None

    def chk(mon, ok, cls, what, **case):
        rec.check(mon, ok, cls, "%s: %s" % (modkey, what), case=dict(case, impl=modkey), facts={"impl": modkey, "identity": cls})

    # base points: random multiples of the generators
    k1, k2 = rng.randrange(1, S.r), rng.randrange(1, S.r)
    P0, Q0 = S.E1.mul(S.g1, k1), S.E2.mul(S.g2, k2)
    e0 = e(Q0, P0, "bilinear")
    if e0 is None:
        return
    sc = scalars(S, rng)
    (an, a), (bn, b) = rng.choice(sc), rng.choice(sc)
    for n_ in (an, bn):
        rec.case("scalar:" + n_, None, nontrivial=False)
    P, Q = S.E1.mul(P0, a), S.E2.mul(Q0, b)
    e1 = e(Q, P, "bilinear", nontrivial=True)
    if e1 is not None:
        chk("B-pair.bilinear", e1 == F12.pow(e0, a * b), "bilinear", "e(bQ, aP) != e(Q, P)^(ab)", a=a, b=b, Q=Q0, P=P0)
    # order / non-degeneracy on the generators (once per shard and implementation)
    if modkey not in base_cache:
        eg = e(S.g2, S.g1, "order", nontrivial=False)
        base_cache[modkey] = eg
        if eg is not None:
            chk("B-pair.order", eg != one, "order", "e(G2, G1) is the unit")
            chk("B-pair.order", F12.pow(eg, S.r) == one, "order", "e(G2, G1)^r != 1")
            chk("B-pair.bilinear", e0 == F12.pow(eg, k1 * k2), "bilinear", "e(k2 G2, k1 G1) != e(G2, G1)^(k1 k2)", a=k1, b=k2)
    else:
        rec.case("%s:order" % modkey, None, nontrivial=False)
    # infinity gives the unit (cheap)
    for Qi, Pi in ((None, P0), (Q0, None), (None, None)):
        v = e(Qi, Pi, "infinity")
        if v is not None:
            chk("B-pair.infinity", v == one, "infinity", "pairing with the point at infinity is not the unit", Q=Qi, P=Pi)
    # off-curve arguments must be refused
    bad = []
    Pb = (P0[0], S.F1.add(P0[1], S.F1.one))
    Qb = (Q0[0], S.F2.add(Q0[1], S.F2.one))
    bad.append((Q0, Pb, "P.y+1"))
    bad.append((Qb, P0, "Q.y+1"))
    bad.append(((S.F2.add(Q0[0], (0, 1)), Q0[1]), P0, "Q.x+i"))
    # a point of y^2 = x^3 + b over Fp2 (the untwisted coefficient) offered as a twist point
    from ..model.ec import Curve
    Ew = Curve(S.F2, S.F2.zero, S.F2.el((S.E1.b[0], 0)))
    bad.append((Ew.rand_point(rng), P0, "Q on the untwisted curve"))
    for Qx, Px, what in bad:
        rec.case("%s:offcurve" % modkey, ("off", modkey, Qx, Px), sample={"impl": modkey, "offcurve": what})
        st, v = call(pm.pairing, CG.to_lib(modkey, Qx, 2, rng), CG.to_lib(modkey, Px, 1, rng))
        chk("B-pair.offcurve", st == "exc", "offcurve", "pairing accepted an argument that is not on its curve (%s)" % what, Q=Qx, P=Px)
    # ... also when the OTHER argument is the point at infinity (a short-circuit must not come before the curve check)
    for Qx, Px, what in ((Q0, Pb, "P.y+1"), (Qb, P0, "Q.y+1")):
        for rep in (CG.INF_REPS if opt else [None]):
            rec.case("%s:offcurve-vs-infinity" % modkey, ("offinf", modkey, what, rep), sample={"impl": modkey, "offcurve": what, "other argument": "infinity " + str(rep)})
            if what.startswith("P"):
                a1, a2 = CG.to_lib(modkey, None, 2, rng, inf_rep=rep), CG.to_lib(modkey, Px, 1, rng)
            else:
                a1, a2 = CG.to_lib(modkey, Qx, 2, rng), CG.to_lib(modkey, None, 1, rng, inf_rep=rep)
            st, v = call(pm.pairing, a1, a2)
            chk("B-pair.offcurve", st == "exc", "offcurve", "pairing accepted an off-curve argument (%s) because the other argument is infinity" % what, Q=Qx, P=Px)
    # ---- representation independence on operands engineered to COLLIDE with earlier operands on part of their raw
    #      representation (what a cache keyed too coarsely, or a shortcut testing one coefficient, would confuse)
    if opt:
        def raw(deg, X, Y, Zc):
            cls_ = CG.field_classes(modkey)[deg]
            return (CG.mk_el(cls_, X), CG.mk_el(cls_, Y), CG.mk_el(cls_, Zc))

        def val(v):
            try:
                return tuple(c_ % S.p for c_ in conv.el(v))
            except Exception:
                return None
        s_p = CG.rand_scale(S.F1, rng)
        Xr, Yr = S.F1.mul(P0[0], s_p)[0], S.F1.mul(P0[1], s_p)[0]
        q_obj = CG.to_lib(modkey, Q0, 2, rng, scale=CG.rand_scale(S.F2, rng))
        st, first = call(pm.pairing, q_obj, raw(1, (Xr,), (Yr,), s_p))
        others = [z for z in CG.same_xy_other_z(S.E1, Xr, Yr, rng) if z != s_p[0] and z != 0]
        related = [("same-XY-other-Z", raw(1, (Xr,), (Yr,), (z,)), ((Xr * pow(z, -1, S.p) % S.p,), (Yr * pow(z, -1, S.p) % S.p,))) for z in others]
        Pe = CG.endo(S.F1, P0)
        related.append(("same-Y-other-X", raw(1, S.F1.mul(Pe[0], s_p), S.F1.mul(Pe[1], s_p), s_p), Pe))
        Pn = S.E1.neg(P0)
        related.append(("same-X-other-Y", raw(1, S.F1.mul(Pn[0], s_p), S.F1.mul(Pn[1], s_p), s_p), Pn))
        for name, p_obj, aff in related:
            if not S.E1.on_curve(aff):
                continue
            rec.case("%s:related-operands" % modkey, ("rel", modkey, name, aff), sample={"impl": modkey, "relation to the previous operand": name})
            st1, v1 = call(pm.pairing, q_obj, p_obj)
            st2, v2 = call(pm.pairing, CG.to_lib(modkey, Q0, 2, rng, scale=CG.rand_scale(S.F2, rng)), CG.to_lib(modkey, aff, 1, rng, scale=CG.rand_scale(S.F1, rng)))
            chk("B-pair.rep", st1 == "ok" and st2 == "ok" and val(v1) == val(v2), "related-operands",
                "pairing depends on the representative / on an earlier call: operand sharing raw coordinates with the previous one (%s)" % name, Q=Q0, P=aff)
        # sparse rescalings of the G2 argument (a coefficient of a coordinate, or of its twisted image, vanishes)
        shift = getattr(S, "shift", None)
        scs = CG.sparse_scales(S.F2, Q0, shift)
        for sc_ in (scs if heavy else scs[:4]):
            rec.case("%s:sparse-rescaling" % modkey, ("sparse", modkey, sc_), sample={"impl": modkey, "scale of Q": sc_})
            stx, vx = call(pm.pairing, CG.to_lib(modkey, Q0, 2, rng, scale=sc_), CG.to_lib(modkey, P0, 1, rng, scale=s_p))
            chk("B-pair.rep", stx == "ok" and val(vx) == e0, "sparse-rescaling", "pairing changes under the projective rescaling %r of its G2 argument" % (sc_,), Q=Q0, P=P0)
    if not heavy:
        for cls in ("additive-P", "additive-Q", "negation"):
            rec.case("%s:%s" % (modkey, cls), None, nontrivial=False)
        return
    # additivity in the second argument
    P2 = S.E1.mul(S.g1, rng.randrange(1, S.r))
    e3 = e(Q, P2, "additive-P")
    e4 = e(Q, S.E1.add(P, P2), "additive-P")
    if None not in (e1, e3, e4):
        chk("B-pair.additive", e4 == F12.mul(e1, e3), "additive-P", "e(Q, P1+P2) != e(Q,P1) e(Q,P2)", Q=Q, P1=P, P2=P2)
    Q2 = S.E2.mul(S.g2, rng.randrange(1, S.r))
    e5 = e(Q2, P, "additive-Q")
    e6 = e(S.E2.add(Q, Q2), P, "additive-Q")
    if None not in (e1, e5, e6):
        chk("B-pair.additive", e6 == F12.mul(e1, e5), "additive-Q", "e(Q1+Q2, P) != e(Q1,P) e(Q2,P)", Q1=Q, Q2=Q2, P=P)
    e7 = e(S.E2.neg(Q), P, "negation")
    e8 = e(Q, S.E1.neg(P), "negation")
    if None not in (e1, e7, e8):
        chk("B-pair.negation", F12.mul(e7, e1) == one, "negation", "e(-Q, P) e(Q, P) != 1", Q=Q, P=P)
        chk("B-pair.negation", F12.mul(e8, e1) == one, "negation", "e(Q, -P) e(Q, P) != 1", Q=Q, P=P)


def run(rec):
    import_all()
    for mk in CG.MODKEYS:
        watch(CG.cmon.MODULES[mk][1], "pairing", "M-pairing.observed", h_pairing(mk))
    rng = rec.rng
    quick = rec.tier == "quick"
    mk = CG.MODKEYS[rec.shard % 4]
    ref = CG.rep_of(mk) == "ref"
    cache = {}
    n = (1 if ref else 3) if quick else (10 if ref else 40)
    for j in range(n):
        instance(rec, mk, rng, heavy=True, base_cache=cache)
    # thorough tier only: more DISTINCT pairings than a bounded table of recent results could hold, then the first ones again
    if not quick and not ref and rec.shard < 4:
        from .common import soak_size, soak_then_reprobe
        c, pm, pkg = CG.lib(mk)
        S = CG.suite_of(mk)
        nsoak = soak_size([CG.cmon.MODULES[mk][1], CG.cmon.MODULES[mk][0]], default=1100, cap=5000)
        k1, k2 = rng.randrange(1, S.r), rng.randrange(1, S.r)
        P0, Q0 = S.E1.mul(S.g1, k1), S.E2.mul(S.g2, k2)
        qo, po_ = CG.to_lib(mk, Q0, 2, rng), CG.to_lib(mk, P0, 1, rng)
        g2o, g1o = CG.to_lib(mk, S.g2, 2, rng), CG.to_lib(mk, S.g1, 1, rng)
        seen = {}

        def probe():
            for name, (a_, b_, kk) in {"base": (qo, po_, k1 * k2), "gen": (g2o, g1o, 1)}.items():
                st, v = call(pm.pairing, a_, b_)
                t = tuple(c_ % S.p for c_ in conv.el(v)) if st == "ok" else None
                if name in seen:
                    rec.check("B-pair.rep", t == seen[name], "soak", "%s: the same pairing call returns another value after %d distinct pairings" % (mk, nsoak), facts={"impl": mk, "identity": "soak"})
                seen[name] = t
            if seen.get("base") and seen.get("gen"):
                rec.check("B-pair.bilinear", seen["base"] == S.F12.pow(seen["gen"], k1 * k2), "soak", "%s: e(k2 G2, k1 G1) != e(G2, G1)^(k1 k2) after the soak" % mk, facts={"impl": mk, "identity": "soak"})

        def distinct_pairings():
            Pt = P0
            while True:
                Pt = S.E1.add(Pt, S.g1)
                pl = CG.to_lib(mk, Pt, 1, rng)
                yield (lambda pl=pl: call(pm.pairing, qo, pl, final_exponentiate=False))
        soak_then_reprobe(rec, "distinct-pairings", [probe], distinct_pairings(), nsoak)
    # every shard also touches the cheap parts of the other optimized implementation so that class counters do not depend on shard layout
    if not ref:
        instance(rec, mk, rng, heavy=False, base_cache=cache)


def replay(rec, case):
    print("replay: C05 identities involve several pairing calls; re-run ./check C05 with VERIF_SEED=%d (shard %s) to reproduce" % (rec.seed, case.get("impl")))
