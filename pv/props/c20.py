"""C20 — public functions are pure: no mutation of inputs or constants, history-independent."""
from __future__ import annotations

import collections
import hashlib
import importlib
import random
import sys

from .. import core
from ..history import digest as D
from ..model import params
from ..monitors.install import import_all, loaded_modules
from . import fieldgen as FG
from .common import HASHES

SELFTESTS = ["fields"]
DECIDING = ["M-pure.args", "M-pure.registry", "H-consistency", "H-registry-across-histories"]
RULE = ("cases = calls of ~100 public operations across all modules (field arithmetic on the 12 concrete classes and on ad-hoc subclasses "
        "created mid-history, curve operations of the four curve modules, the four pairings, XMD / hash_to_field / hash_to_curve / HKDF, "
        "(de)compression, every ciphersuite entry point of the three suites, ECDSA) arranged in HISTORIES: random interleavings with "
        "repetitions drawn from one fixed pool of (operation, arguments) pairs whose argument slots deliberately collide on sub-tuples. "
        "Online monitor at the call boundary: value digest of every argument and of the constants registry (every data constant and class "
        "attribute of every py_ecc module: generators, coefficients, isogeny and root tables, exptable, tags, ...) before and after each call. "
        "Offline checker over the recorded event logs of all histories (several per process, and one fresh interpreter per shard with "
        "PYTHONHASHSEED varied): (i) every registry digest equals the import-time digest and is the same in every interpreter, (ii) argument "
        "digests unchanged, (iii) all events with the same (operation, argument digest) have one result digest. distinct = distinct "
        "(operation, arguments); non-trivial = pairs observed at >= 2 different positions / histories"
        " The pool includes operations that raise in the middle of a product (operands of different degree, a junk coefficient); every second shard adds a CONCURRENT history (4 threads drawing from the pool, then all hashing operations in rotated order) whose events go to the same offline checker.")
ASSUMPTIONS = ["value digests read raw attributes (n, coeffs, modulus_coeffs) and tuple/list/bytes contents; the memoised sgn0 is not part of an element's value"]
SHARD_ENV = lambda shard: {"PYTHONHASHSEED": str([0, 1, 2, 12345, 987654321][shard % 5])}   # noqa: E731

REPLAY_BY_SHARD = True


def shards(tier):
    return 16


def required_classes(tier):
    return ["op:raising", "op:persist", "op:field", "op:field-adhoc", "op:curve", "op:pairing", "op:hash", "op:zcash", "op:bls", "op:secp", "history", "history:concurrent", "repeat-in-history", "adhoc-class-created-mid-history"]


def cs_mod():
    return importlib.import_module("py_ecc.bls.ciphersuites")


# ------------------------------------------------------------------------------------------------ the pool
PERSIST_SPEC = {}     # key -> (class, degree, value of x, value of y)
PERSIST = {}          # key -> {"x": element, "y": element}; re-created at the start of every history


def fresh_persistent_objects():
    from ..model import bls as _MB
    buf = PERSIST.setdefault("BUF", {})
    buf["key"] = bytearray(b"persistent-key-0123456789abcdef!")
    buf["sigs"] = [_MB.sign("basic", 3, b"message"), _MB.sign("basic", 5, b"message"), _MB.sign("basic", 7, b"x")]
    for key, spec in PERSIST_SPEC.items():
        if spec is None:
            continue
        cls, deg, va, vb = spec
        d = PERSIST.setdefault(key, {})
        d["x"] = cls(va[0]) if deg == 1 else cls(list(va))
        d["y"] = cls(vb[0]) if deg == 1 else cls(list(vb))


def build_pool(seed, quick):
    """[(group, name, weight, make_call)] -- make_call() -> (callable, args list).  The pool is the same in every
    shard / interpreter (seeded independently of the shard)."""
    rng = random.Random(seed * 1000003 + 20)
    pool = []

    def add(group, name, weight, mk):
        pool.append((group, name, weight * (0.35 if group == "field" else 1), mk))

    # ---- fields: concrete classes
    classes = FG.concrete_classes()
    vals = {}
    for (impl, curve, deg), (cls, _F) in classes.items():
        kind = {1: "FQ", 2: "FQ2", 12: "FQ12"}[deg]
        p = cls.field_modulus
        vs = [tuple(rng.randrange(p) for _ in range(deg)) for _ in range(2)] + [(p - 1,) * deg, (0,) * (deg - 1) + (1,)]
        vals[(impl, curve, kind)] = vs

        def mk_el(cls=cls, deg=deg):
            return (lambda v: cls(v[0])) if deg == 1 else (lambda v: cls(list(v)))
        ctor = mk_el()
        tag = "%s.%s.%s" % (impl, curve, kind)
        for i, a in enumerate(vs[:3]):
            for j, b in enumerate(vs[:2]):
                add("field", "%s.add[%d,%d]" % (tag, i, j), 1, lambda a=a, b=b, c=ctor: ((lambda x, y: x + y), [c(a), c(b)]))
                add("field", "%s.mul[%d,%d]" % (tag, i, j), 1, lambda a=a, b=b, c=ctor: ((lambda x, y: x * y), [c(a), c(b)]))
            add("field", "%s.sub_neg[%d]" % (tag, i), 1, lambda a=a, b=vs[1], c=ctor: ((lambda x, y: -(x - y)), [c(a), c(b)]))
            add("field", "%s.div[%d]" % (tag, i), 1, lambda a=a, b=vs[0], c=ctor: ((lambda x, y: x / y), [c(a), c(b)]))
            add("field", "%s.pow[%d]" % (tag, i), 1, lambda a=a, c=ctor, e=rng.randrange(2, 1 << 70): ((lambda x, n: x ** n), [c(a), e]))
            add("field", "%s.int_mix[%d]" % (tag, i), 1, lambda a=a, c=ctor, k=rng.randrange(-5, 1 << 64): ((lambda x, n: (x * n) / 3), [c(a), k]))
            add("field", "%s.eq[%d]" % (tag, i), 1, lambda a=a, b=vs[0], c=ctor: ((lambda x, y: (x == y, x != y)), [c(a), c(b)]))
            if impl == "opt":
                add("field", "%s.sgn0[%d]" % (tag, i), 1, lambda a=a, c=ctor: ((lambda x: (x.sgn0, (-x).sgn0, x.sgn0)), [c(a)]))
            if deg > 1:
                add("field", "%s.inv[%d]" % (tag, i), 1, lambda a=a, c=ctor: ((lambda x: x.inv()), [c(a)]))
                add("field", "%s.ctor_from_list[%d]" % (tag, i), 1, lambda a=a, cls=cls: ((lambda lst: cls(lst)), [list(a)]))
        add("field", "%s.one_zero" % tag, 1, lambda cls=cls: ((lambda: (cls.one(), cls.zero())), []))
    # ---- persistent objects: the same element / point OBJECTS are reused by several operations of a history (as a caller
    #      who keeps a point around does); equal values must give equal results whatever was done with the object before
    for (impl, curve, deg), (cls, _F) in classes.items():
        p = cls.field_modulus
        va = tuple(rng.randrange(p) for _ in range(deg))
        vb = tuple(rng.randrange(p) for _ in range(deg))
        key = "P.%s.%s.%d" % (impl, curve, deg)
        PERSIST_SPEC[key] = (cls, deg, va, vb)
        tag = "persist.%s.%s.FQ%s" % (impl, curve, "" if deg == 1 else deg)
        if impl == "opt":
            add("persist", tag + ".sgn0(x)", 2, lambda key=key: ((lambda P: P["x"].sgn0), [PERSIST[key]]))
            add("persist", tag + ".sgn0(x+y)", 2, lambda key=key: ((lambda P: (P["x"] + P["y"]).sgn0), [PERSIST[key]]))
            add("persist", tag + ".sgn0(x-y,x*y,x*3)", 2, lambda key=key: ((lambda P: ((P["x"] - P["y"]).sgn0, (P["x"] * P["y"]).sgn0, (P["x"] * 3).sgn0, (-P["x"]).sgn0)), [PERSIST[key]]))
        add("persist", tag + ".x*y+x", 1, lambda key=key: ((lambda P: P["x"] * P["y"] + P["x"]), [PERSIST[key]]))
        add("persist", tag + ".x/y,x**5", 1, lambda key=key: ((lambda P: (P["x"] / P["y"], P["x"] ** 5, P["x"] == P["y"])), [PERSIST[key]]))
    # ---- fields: ad-hoc subclasses created inside the history (other primes, other moduli)
    for impl in ("ref", "opt"):
        for p, mc in ((7, None), (13, (1, 0)), (5, (2, 0)), (7, (1, 0)), (7, (2, 0)), (11, (3, 0, 0, 0, 0, 0, 1, 0, 0, 0, 0, 0)), (101, (2, 0))):
            def mk(impl=impl, p=p, mc=mc):
                def f(a, b):
                    cls, F = FG.adhoc_class(impl, p, mc)
                    k = 1 if mc is None else len(mc)
                    x = cls(a[0]) if k == 1 else cls(list(a[:k]) + [0] * (k - len(a[:k])))
                    y = cls(b[0]) if k == 1 else cls(list(b[:k]) + [0] * (k - len(b[:k])))
                    return (x * y + x, x / y, (x - y) ** 5, -x)
                return f, [[3, 4, 1, 0, 0, 0, 0, 0, 0, 0, 0, 2], [5, 6, 0, 0, 1, 0, 0, 0, 0, 0, 0, 1]]
            add("field-adhoc", "adhoc.%s.p%d.%s" % (impl, p, "fq" if mc is None else "deg%d.mc%s" % (len(mc), "_".join(map(str, mc[:2])))), 2, mk)
    # ---- curves
    from . import curvegen as CG
    for mk_ in CG.MODKEYS:
        c, pm, pkg = CG.lib(mk_)
        S = CG.suite_of(mk_)
        opt = CG.rep_of(mk_) == "opt"
        ks = [rng.randrange(1, S.r) for _ in range(2)]
        pts1 = [S.E1.mul(S.g1, k) for k in ks]
        pts2 = [S.E2.mul(S.g2, k) for k in ks]
        sc1 = tuple(CG.rand_scale(S.F1, rng))
        sc2 = tuple(CG.rand_scale(S.F2, rng))

        def L(Pt, deg, scaled, mk_=mk_, sc1=sc1, sc2=sc2):
            return CG.to_lib(mk_, Pt, deg, None, scale=(sc1 if deg == 1 else sc2) if (scaled and opt) else None)
        for deg, pts, gname in ((1, pts1, "G1"), (2, pts2, "G2")):
            gen = getattr(c, gname)
            for scaled in ((False, True) if opt else (False,)):
                t = "%s.%s%s" % (mk_, gname, ".scaled" if scaled else "")
                add("curve", t + ".add", 2, lambda c=c, a=pts[0], b=pts[1], deg=deg, scaled=scaled, L=L: (c.add, [L(a, deg, scaled), L(b, deg, False)]))
                add("curve", t + ".double", 1, lambda c=c, a=pts[0], deg=deg, scaled=scaled, L=L: (c.double, [L(a, deg, scaled)]))
                add("curve", t + ".neg", 1, lambda c=c, a=pts[1], deg=deg, scaled=scaled, L=L: (c.neg, [L(a, deg, scaled)]))
                add("curve", t + ".multiply", 2, lambda c=c, a=pts[0], deg=deg, scaled=scaled, L=L, n=rng.randrange(1, 1 << 64): (c.multiply, [L(a, deg, scaled), n]))
                add("curve", t + ".eq", 1, lambda c=c, a=pts[0], b=pts[0], deg=deg, scaled=scaled, L=L: (c.eq, [L(a, deg, scaled), L(b, deg, False)]))
                add("curve", t + ".is_on_curve", 1, lambda c=c, a=pts[1], deg=deg, scaled=scaled, L=L, gname=gname: (c.is_on_curve, [L(a, deg, scaled), c.b if gname == "G1" else c.b2]))
            # the module's own generator object as an argument (a constant that must not change)
            add("curve", "%s.%s.multiply(generator)" % (mk_, gname), 2, lambda c=c, gen=gen, n=rng.randrange(1, 1 << 32): (c.multiply, [gen, n]))
            add("curve", "%s.%s.add(generator, generator)" % (mk_, gname), 1, lambda c=c, gen=gen: (c.add, [gen, gen]))
        add("curve", "%s.twist" % mk_, 1, lambda c=c, a=pts2[0], L=L: (c.twist, [L(a, 2, True)]))
        add("curve", "%s.twist(G2)" % mk_, 1, lambda c=c: (c.twist, [c.G2]))
        if opt:
            add("curve", "%s.normalize" % mk_, 1, lambda c=c, a=pts1[0], L=L: (c.normalize, [L(a, 1, True)]))
        # pairings (reference ones are slow: low weight)
        w = 3 if opt else (0.25 if quick else 1)
        add("pairing", "%s.pairing" % mk_, w, lambda pm=pm, q=pts2[0], p_=pts1[1], L=L: (pm.pairing, [L(q, 2, True), L(p_, 1, True)]))
        add("pairing", "%s.pairing(G2,G1)" % mk_, w / 2, lambda pm=pm, c=c: (pm.pairing, [c.G2, c.G1]))
        if opt:
            add("pairing", "%s.pairing.nofinal" % mk_, 1, lambda pm=pm, q=pts2[1], p_=pts1[0], L=L: ((lambda Q, P_: pm.pairing(Q, P_, final_exponentiate=False)), [L(q, 2, False), L(p_, 1, True)]))
            # same operands as the plain "pairing" operation above, other value of the flag (keyword and positional)
            add("pairing", "%s.pairing.nofinal(same operands)" % mk_, 2, lambda pm=pm, q=pts2[0], p_=pts1[1], L=L: ((lambda Q, P_: pm.pairing(Q, P_, final_exponentiate=False)), [L(q, 2, True), L(p_, 1, True)]))
            add("pairing", "%s.pairing.nofinal(G2,G1)" % mk_, 1, lambda pm=pm, c=c: ((lambda Q, P_: pm.pairing(Q, P_, False)), [c.G2, c.G1]))
            add("pairing", "%s.final_exponentiate" % mk_, 1, lambda pm=pm, c=c, v=[rng.randrange(S.p) for _ in range(12)]: (pm.final_exponentiate, [c.FQ12(list(v))]))
            if hasattr(pm, "exp_by_p"):
                add("pairing", "%s.exp_by_p" % mk_, 2, lambda pm=pm, c=c, v=[rng.randrange(S.p) for _ in range(12)]: (pm.exp_by_p, [c.FQ12(list(v))]))
    # ---- hashing
    hm = importlib.import_module("py_ecc.bls.hash")
    h2c = importlib.import_module("py_ecc.bls.hash_to_curve")
    msgs = [b"", b"abc", rng.randbytes(33)]
    dsts = [b"QUUX-V01-CS02", b"BLS_SIG_BLS12381G2_XMD:SHA-256_SSWU_RO_NUL_", b"BLS_SIG_BLS12381G2_XMD:SHA-256_SSWU_RO_POP_"]
    hs = ["sha256", "sha512", "sha3_256"]
    for i, m in enumerate(msgs):
        for j, d in enumerate(dsts):
            for hn in hs[:2]:
                add("hash", "xmd[%d,%d,%s]" % (i, j, hn), 1, lambda m=m, d=d, hn=hn: (hm.expand_message_xmd, [m, d, 96, HASHES[hn]]))
                add("hash", "hash_to_field_FQ2[%d,%d,%s]" % (i, j, hn), 1, lambda m=m, d=d, hn=hn: (h2c.hash_to_field_FQ2, [m, 2, d, HASHES[hn]]))
                add("hash", "hash_to_field_FQ[%d,%d,%s]" % (i, j, hn), 1, lambda m=m, d=d, hn=hn: (h2c.hash_to_field_FQ, [m, 2, d, HASHES[hn]]))
            add("hash", "hash_to_G2[%d,%d]" % (i, j), 1, lambda m=m, d=d: (h2c.hash_to_G2, [m, d, HASHES["sha256"]]))
            add("hash", "hash_to_G1[%d,%d]" % (i, j), 1, lambda m=m, d=d: (h2c.hash_to_G1, [m, d, HASHES["sha256"]]))
        add("hash", "hkdf[%d]" % i, 1, lambda m=m: ((lambda s, k: hm.hkdf_expand(hm.hkdf_extract(s, k), b"info", 80)), [bytearray(b"salt"), m]))
    for j, d in enumerate(dsts):
        for hn in ("sha256", "sha3_256", "sha512"):
            add("hash", "xmd-long[%d,%s]" % (j, hn), 0.4, lambda d=d, hn=hn: (hm.expand_message_xmd, [b"long output", d, 255 * HASHES[hn]().digest_size, HASHES[hn]]))
    long_m = rng.randbytes(400)
    for j, m_ in enumerate((long_m, hashlib.sha256(long_m).digest(), hashlib.sha512(long_m).digest(), long_m[:32])):
        add("hash", "hash_to_G2(related message %d)" % j, 1.5, lambda m_=m_: (h2c.hash_to_G2, [m_, dsts[1], HASHES["sha256"]]))
        add("hash", "xmd(related message %d)" % j, 0.7, lambda m_=m_: (hm.expand_message_xmd, [m_, dsts[0], 64, HASHES["sha512"]]))
        add("bls", "basic.Sign(related message %d)" % j, 1, lambda m_=m_: (cs_mod().G2Basic.Sign, [5, m_]))
    u2 = [rng.randrange(params.BLS_P) for _ in range(2)]
    swu = importlib.import_module("py_ecc.optimized_bls12_381.optimized_swu")
    ob = importlib.import_module("py_ecc.optimized_bls12_381")
    add("hash", "map_to_curve_G2", 1, lambda: (h2c.map_to_curve_G2, [ob.FQ2(list(u2))]))
    add("hash", "map_to_curve_G1", 1, lambda: (h2c.map_to_curve_G1, [ob.FQ(u2[0])]))
    add("hash", "optimized_swu_G2(0)", 1, lambda: (swu.optimized_swu_G2, [ob.FQ2([0, 0])]))
    # ---- (de)compression
    pc = importlib.import_module("py_ecc.bls.point_compression")
    gp = importlib.import_module("py_ecc.bls.g2_primitives")
    Sb = params.suite("bls12_381")
    kz = [rng.randrange(1, Sb.r) for _ in range(2)]
    for i, k in enumerate(kz):
        P1, P2 = Sb.E1.mul(Sb.g1, k), Sb.E2.mul(Sb.g2, k)
        s1, s2 = tuple(CG.rand_scale(Sb.F1, rng)), tuple(CG.rand_scale(Sb.F2, rng))
        add("zcash", "compress_G1[%d]" % i, 1, lambda P1=P1, s1=s1: (pc.compress_G1, [CG.to_lib("opt.bls12_381", P1, 1, None, scale=s1)]))
        add("zcash", "compress_G2[%d]" % i, 1, lambda P2=P2, s2=s2: (pc.compress_G2, [CG.to_lib("opt.bls12_381", P2, 2, None, scale=s2)]))
        from ..model import zcash as Z
        w1, w2 = Z.enc_g1_word(P1), Z.enc_g2_words(P2)
        add("zcash", "decompress_G1[%d]" % i, 1, lambda w1=w1: (pc.decompress_G1, [w1]))
        add("zcash", "decompress_G2[%d]" % i, 1, lambda w2=w2: (pc.decompress_G2, [w2]))
        add("zcash", "pubkey_to_G1[%d]" % i, 1, lambda b=Z.enc_g1(P1): (gp.pubkey_to_G1, [b]))
        add("zcash", "signature_to_G2[%d]" % i, 1, lambda b=Z.enc_g2(P2): (gp.signature_to_G2, [b]))
        add("zcash", "G2_to_signature[%d]" % i, 1, lambda P2=P2: (gp.G2_to_signature, [CG.to_lib("opt.bls12_381", P2, 2, None)]))
        add("zcash", "subgroup_check[%d]" % i, 1, lambda P2=P2, s2=s2: (gp.subgroup_check, [CG.to_lib("opt.bls12_381", P2, 2, None, scale=s2)]))
    add("zcash", "decompress_G1(bad)", 1, lambda: (pc.decompress_G1, [1 << 382]))
    add("zcash", "compress_G1(Z1)", 1, lambda: (pc.compress_G1, [ob.Z1]))
    add("zcash", "compress_G2(G2)", 1, lambda: (pc.compress_G2, [ob.G2]))
    # ---- ciphersuites
    cs = importlib.import_module("py_ecc.bls.ciphersuites")
    from ..model import bls as MB
    sks = [rng.randrange(1, Sb.r), 3]
    bmsgs = [b"", b"message", rng.randbytes(40)]
    for sname, cname in (("basic", "G2Basic"), ("aug", "G2MessageAugmentation"), ("pop", "G2ProofOfPossession")):
        Sx = getattr(cs, cname)
        for i, sk in enumerate(sks):
            pk = MB.sk_to_pk(sk)
            add("bls", "%s.SkToPk[%d]" % (sname, i), 1, lambda Sx=Sx, sk=sk: (Sx.SkToPk, [sk]))
            add("bls", "%s.KeyValidate[%d]" % (sname, i), 1, lambda Sx=Sx, pk=pk: (Sx.KeyValidate, [pk]))
            for j, m in enumerate(bmsgs[: 2 if quick else 3]):
                sig = MB.sign(sname, sk, m)
                add("bls", "%s.Sign[%d,%d]" % (sname, i, j), 1, lambda Sx=Sx, sk=sk, m=m: (Sx.Sign, [sk, m]))
                add("bls", "%s.Verify[%d,%d]" % (sname, i, j), 1.5, lambda Sx=Sx, pk=pk, m=m, sig=sig: (Sx.Verify, [pk, m, sig]))
                add("bls", "%s.Verify.wrong[%d,%d]" % (sname, i, j), 0.7, lambda Sx=Sx, pk=pk, m=m, sig=sig: (Sx.Verify, [pk, m + b"x", sig]))
        a, b = sks
        m0, m1 = bmsgs[1], bmsgs[2]
        sg = [MB.sign(sname, a, m0), MB.sign(sname, b, m1)]
        add("bls", "%s.Aggregate" % sname, 1, lambda Sx=Sx, sg=sg: (Sx.Aggregate, [list(sg)]))
        add("bls", "%s.AggregateVerify" % sname, 1, lambda Sx=Sx, sg=sg, a=a, b=b, m0=m0, m1=m1: (Sx.AggregateVerify, [[MB.sk_to_pk(a), MB.sk_to_pk(b)], [m0, m1], MB.aggregate(sg)]))
        add("bls", "%s.KeyGen" % sname, 1, lambda Sx=Sx: (Sx.KeyGen, [b"\x01" * 32, b"info"]))
        add("bls", "%s.Sign(bad key)" % sname, 0.5, lambda Sx=Sx: (Sx.Sign, [0, b"m"]))
    Pp = cs.G2ProofOfPossession
    add("bls", "pop.PopProve", 1, lambda: (Pp.PopProve, [sks[0]]))
    add("bls", "pop.PopVerify", 1, lambda: (Pp.PopVerify, [MB.sk_to_pk(sks[0]), MB.pop_prove(sks[0])]))
    fm = b"fast"
    add("bls", "pop.FastAggregateVerify", 1, lambda: (Pp.FastAggregateVerify, [[MB.sk_to_pk(s) for s in sks], fm, MB.aggregate([MB.sign("pop", s, fm) for s in sks])]))
    # ---- hostile but cheap BLS probes whose answer must not depend on what ran before, valid keys that cancel, and a soak
    from ..model import zcash as Zm
    idk, infsig = Zm.enc_g1(None), Zm.enc_g2(None)
    skc = sks[0]
    add("bls", "KeyValidate(identity)", 2, lambda: (cs.G2Basic.KeyValidate, [idk]))
    add("bls", "pop.KeyValidate(identity)", 1, lambda: (Pp.KeyValidate, [idk]))
    add("bls", "Verify(identity key, m, infinity)", 2, lambda: (cs.G2Basic.Verify, [idk, b"m", infsig]))
    add("bls", "pop.PopVerify(identity, infinity)", 1, lambda: (Pp.PopVerify, [idk, infsig]))
    add("bls", "pop.FastAggregateVerify([pk, -pk])", 2, lambda: (Pp.FastAggregateVerify, [[MB.sk_to_pk(skc), MB.sk_to_pk(Sb.r - skc)], b"m", infsig]))
    add("bls", "aug.AggregateVerify([pk, identity])", 1, lambda: (cs.G2MessageAugmentation.AggregateVerify, [[MB.sk_to_pk(skc), idk], [b"a", b"b"], MB.sign("aug", skc, b"a")]))

    def soak(n, salt):
        def f(count, salt_):
            r_ = random.Random(salt_)
            acc = 0
            for _ in range(count):
                acc += bool(cs.G2Basic.KeyValidate(r_.randbytes(48)))
            return acc
        return f, [n, salt]
    add("bls", "soak:KeyValidate x1100 distinct keys", 0.6, lambda: soak(1100, 7))
    add("hash", "soak:xmd x300 distinct messages", 0.5, lambda: ((lambda n: hashlib.sha256(b"".join(hm.expand_message_xmd(i.to_bytes(4, "big"), b"dst", 48, HASHES["sha256"]) for i in range(n))).hexdigest()), [300]))
    # ---- persistent MUTABLE buffers: the same bytearray / list object is passed by several operations of a history and changed
    #      in place in between ("bump" operations); results must follow the current contents
    PERSIST_SPEC["BUF"] = None
    add("persist", "buf.bump", 2, lambda: ((lambda P: (P["key"].__setitem__(0, (P["key"][0] + 1) % 256), P["sigs"].reverse(), bytes(P["key"]))[-1]), [PERSIST["BUF"]]))
    add("persist", "buf.hkdf_extract(key buffer)", 2, lambda: ((lambda P, k: hm.hkdf_extract(P["key"], b"ikm")), [PERSIST["BUF"], bytes(PERSIST["BUF"]["key"])]))
    add("persist", "buf.hkdf_expand(key buffer)", 2, lambda: ((lambda P, k: hm.hkdf_expand(P["key"], b"info", 40)), [PERSIST["BUF"], bytes(PERSIST["BUF"]["key"])]))
    add("persist", "buf.xmd(msg buffer)", 1, lambda: ((lambda P, k: hm.expand_message_xmd(bytes(P["key"]), b"dst", 40, HASHES["sha256"])), [PERSIST["BUF"], bytes(PERSIST["BUF"]["key"])]))
    add("persist", "buf.Aggregate(list)", 1, lambda: ((lambda P, k: cs.G2Basic.Aggregate(P["sigs"])), [PERSIST["BUF"], tuple(PERSIST["BUF"]["sigs"])]))
    # ---- operations that are refused half-way (an exception must not leave anything behind)
    add("raising", "xmd(ell>255)", 1, lambda: (hm.expand_message_xmd, [b"m", b"dst", 255 * 32 + 1, HASHES["sha256"]]))
    add("raising", "hash_to_G2(dst=256 bytes)", 1, lambda: (h2c.hash_to_G2, [b"m", b"d" * 256, HASHES["sha256"]]))
    add("raising", "FQ2(three coefficients)", 1, lambda: ((lambda lst: ob.FQ2(lst)), [[1, 2, 3]]))
    add("raising", "FQ2 + FQ12", 1, lambda: ((lambda a, b: a + b), [ob.FQ2([1, 2]), ob.FQ12([1] * 12)]))
    add("raising", "FQ * str", 1, lambda: ((lambda a, b: a * b), [ob.FQ(5), "x"]))
    add("raising", "pairing(off-curve)", 1, lambda: (importlib.import_module("py_ecc.optimized_bls12_381").pairing, [ob.G2, (ob.FQ(1), ob.FQ(1), ob.FQ(1))]))
    add("raising", "decompress_G2(bad second word)", 1, lambda: (pc.decompress_G2, [((1 << 383) | 5, 1 << 383)]))
    add("raising", "Aggregate(second entry undecodable)", 1, lambda: (cs.G2Basic.Aggregate, [[MB.sign("basic", 3, b"message"), b"\xff" * 96]]))
    add("raising", "Aggregate(third entry short)", 1, lambda: (cs.G2ProofOfPossession.Aggregate, [[MB.sign("pop", 3, b"message"), MB.sign("pop", 3, b""), b"\x00" * 95]]))
    # calls that fail in the MIDDLE of an operation (after part of the work has been done), and calls cut short from outside
    obn = importlib.import_module("py_ecc.optimized_bn128")
    add("raising", "opt FQ2 * FQ12 (operands of different degree)", 2, lambda: ((lambda a, b: a * b), [ob.FQ2([3, 4]), ob.FQ12(list(range(1, 13)))]))
    add("raising", "opt bn128 FQ2 * FQ12", 1, lambda: ((lambda a, b: a * b), [obn.FQ2([3, 4]), obn.FQ12(list(range(1, 13)))]))
    add("raising", "opt FQ12 * FQ12(junk coefficient)", 2, lambda: (_junk_product, ["optimized_bls12_381", 12]))
    add("raising", "opt FQ2 * FQ2(junk coefficient)", 1, lambda: (_junk_product, ["optimized_bls12_381", 2]))
    add("raising", "opt bn128 FQ12 * FQ12(junk coefficient)", 1, lambda: (_junk_product, ["optimized_bn128", 12]))
    if __import__("os").environ.get("PV_C20_TIMEOUT_OPS") == "1":
        # calls abandoned by an ASYNCHRONOUS exception (a service-style timeout raised from a timer signal inside a pairing / Verify).
        # Off by default: an asynchronous exception can legitimately interrupt the construction of a lazily built table in code
        # for which the property (a statement about completed calls) holds, and this family must not raise alarms there.
        add("raising", "pairing cut short by a timeout (bls12-381)", 1, lambda: (_interrupted, ["bls"]))
        add("raising", "pairing cut short by a timeout (bn128)", 1, lambda: (_interrupted, ["bn"]))
        add("raising", "Verify cut short by a timeout", 1, lambda: (_interrupted, ["verify"]))
    add("raising", "SkToPk(r)", 1, lambda: (cs.G2Basic.SkToPk, [Sb.r]))
    # ---- secp256k1
    sp = importlib.import_module("py_ecc.secp256k1.secp256k1")
    privs = [rng.randrange(1, sp.N).to_bytes(32, "big"), (1).to_bytes(32, "big")]
    hashes = [rng.randbytes(32), bytes(32)]
    for i, pv_ in enumerate(privs):
        add("secp", "privtopub[%d]" % i, 1, lambda pv_=pv_: (sp.privtopub, [pv_]))
        for j, h in enumerate(hashes):
            add("secp", "ecdsa_raw_sign[%d,%d]" % (i, j), 1, lambda pv_=pv_, h=h: (sp.ecdsa_raw_sign, [h, pv_]))
            add("secp", "sign_recover[%d,%d]" % (i, j), 1, lambda pv_=pv_, h=h: ((lambda hh, kk: sp.ecdsa_raw_recover(hh, sp.ecdsa_raw_sign(hh, kk))), [h, pv_]))
    add("secp", "multiply(G, n)", 1, lambda n=rng.randrange(-(1 << 300), 1 << 300): (sp.multiply, [sp.G, n]))
    add("secp", "add(G, 2G)", 1, lambda: (sp.add, [sp.G, sp.multiply(sp.G, 2)]))
    add("secp", "recover(bad v)", 0.5, lambda: (sp.ecdsa_raw_recover, [bytes(32), (29, 1, 1)]))
    return pool


class _CutShort(Exception):
    pass


def _junk_product(modname, deg):
    """x * y where one coefficient of y is not a number: the product raises half-way through."""
    cls = getattr(importlib.import_module("py_ecc." + modname), "FQ%d" % deg)
    x = cls(list(range(2, 2 + deg)))
    try:
        y = cls([x.coeffs[0].__class__(5) if not isinstance(x.coeffs[0], int) else 5] + [7] * (deg - 1))
        y.coeffs = tuple(list(y.coeffs[: deg // 2]) + [None] + list(y.coeffs[deg // 2 + 1:])) if isinstance(y.coeffs, tuple) else list(y.coeffs[: deg // 2]) + [None] + list(y.coeffs[deg // 2 + 1:])
    except Exception:
        raise _CutShort("could not build the operand")
    return x * y


_INTERRUPT_ARGS = {}


def _interrupted(which):
    """A service-style timeout: the call is abandoned by an exception raised from a timer signal while it is inside the library
    (main thread only).  Outcome is always the _CutShort exception; what matters is what later calls return."""
    import signal
    import threading
    if threading.current_thread() is not threading.main_thread():
        raise _CutShort("timeouts by signal only exist in the main thread")
    if which not in _INTERRUPT_ARGS:
        from ..model import bls as _MB
        ob_ = importlib.import_module("py_ecc.optimized_bls12_381")
        obn_ = importlib.import_module("py_ecc.optimized_bn128")
        _INTERRUPT_ARGS["bls"] = (ob_.pairing, ob_.multiply(ob_.G2, 5), ob_.multiply(ob_.G1, 7))
        _INTERRUPT_ARGS["bn"] = (obn_.pairing, obn_.multiply(obn_.G2, 5), obn_.multiply(obn_.G1, 7))
        _INTERRUPT_ARGS["verify"] = (cs_mod().G2Basic.Verify, _MB.sk_to_pk(11), b"interrupted", _MB.sign("basic", 11, b"interrupted"))

    def on_alarm(signum, frame):
        raise _CutShort("timeout")
    old_h = signal.getsignal(signal.SIGALRM)
    old_t = signal.setitimer(signal.ITIMER_REAL, 0)
    signal.signal(signal.SIGALRM, on_alarm)
    try:
        signal.setitimer(signal.ITIMER_REAL, 0.06 if which != "verify" else 0.25)
        _INTERRUPT_ARGS[which][0](*_INTERRUPT_ARGS[which][1:])
        signal.setitimer(signal.ITIMER_REAL, 0)
        raise _CutShort("the call finished before the timeout")
    finally:
        signal.setitimer(signal.ITIMER_REAL, 0)
        signal.signal(signal.SIGALRM, old_h)
        if old_t and old_t[0] > 0:
            signal.setitimer(signal.ITIMER_REAL, max(1.0, old_t[0]))


# ------------------------------------------------------------------------------------------------ online monitor
class Purity:
    def __init__(self, rec):
        self.rec = rec
        self.modules = [m for m in loaded_modules()]
        self.shape = None
        self.reg0, self.reg0_digest = self.registry_now()
        self.io_events = collections.Counter()
        self.inside = False
        try:
            sys.addaudithook(self._audit)
        except Exception:
            pass

    def _audit(self, event, args):
        if self.inside and (event in ("open", "os.system", "subprocess.Popen", "os.remove", "os.rename") or event.startswith("socket.")):
            self.io_events[event] += 1

    def registry_now(self):
        """Constants registry, restricted to what can be a constant: module-level containers that were EMPTY at import time are
        accumulators / memo tables, not constants (a correct cache must not raise an alarm; a wrong one shows as a
        history-dependent result), and a dict constant is compared on the keys it had at import."""
        reg = D.registry(self.modules, raw=True)
        if self.shape is None:
            self.shape = {}
            for k, v in reg.items():
                private = k[1].split(".")[-1].startswith("_")
                if private or v is None or (isinstance(v, (dict, list, set, bytearray)) and len(v) == 0):
                    # private module state, lazily initialised slots and empty containers are not constants of the API;
                    # what they do to results is the history checker's business
                    self.shape[k] = "accumulator"
                elif isinstance(v, dict):
                    self.shape[k] = set(v.keys())
        out = {}
        for k, v in reg.items():
            sh = self.shape.get(k)
            if sh == "accumulator":
                continue
            if isinstance(sh, set) and isinstance(v, dict):
                v = {kk: vv for kk, vv in v.items() if kk in sh}
            out[k] = D.canon(v)
        return out, D.registry_digest(out)

    @staticmethod
    def measure(fn, args):
        """The part of an observation that may run in any thread: digests of the arguments before and after, outcome."""
        before = [D.dg(a) for a in args]
        try:
            res = ("ok", fn(*args))
        except Exception as e:
            res = ("exc", e)
        after = [D.dg(a) for a in args]
        return before, after, (D.dg(res[1]) if res[0] == "ok" else "exc:" + type(res[1]).__name__)

    def judge_threaded(self, hist, seq, name, before, after, rdig):
        """Main thread, after the threads have been joined: argument check and event for the offline checker."""
        self.rec.check("M-pure.args", before == after, "args", "%s mutated its argument #%s (concurrent history)" % (name, [i for i, (x, y) in enumerate(zip(before, after)) if x != y]),
                       case={"op": name, "history": hist, "seq": seq}, facts={"op": name.split("[")[0], "kind": "argument-mutated"})
        return [hist, seq, name, hashlib.sha256("|".join(before).encode()).hexdigest()[:16], rdig, self.reg0_digest]

    def registry_check(self, name, case):
        reg, rd = self.registry_now()
        if rd != self.reg0_digest:
            diff = D.registry_diff(self.reg0, reg)
            self.rec.check("M-pure.registry", False, "registry", "%s changed module-level state: %s" % (name, ", ".join(diff[:6])), case=case,
                           facts={"op": name.split("[")[0], "kind": "constant-mutated", "what": diff[:3]})
            self.reg0, self.reg0_digest = reg, rd
        else:
            self.rec.ok("M-pure.registry")

    def call(self, hist, seq, group, name, fn, args):
        rec = self.rec
        before = [D.dg(a) for a in args]
        self.inside = True
        try:
            try:
                res = ("ok", fn(*args))
            except RecursionError as e:
                res = ("exc", e)
            except Exception as e:
                res = ("exc", e)
        finally:
            self.inside = False
        after = [D.dg(a) for a in args]
        case = {"op": name, "history": hist, "seq": seq}
        if name.endswith(".bump"):
            after = before                   # this operation is the HARNESS changing its own persistent buffer in place; no library code runs
        rec.check("M-pure.args", before == after, "args", "%s mutated its argument #%s" % (name, [i for i, (x, y) in enumerate(zip(before, after)) if x != y]),
                  case=case, facts={"op": name.split("[")[0], "kind": "argument-mutated"})
        reg, rd = self.registry_now()
        if rd != self.reg0_digest:
            diff = D.registry_diff(self.reg0, reg)
            rec.check("M-pure.registry", False, "registry", "%s changed module-level state: %s" % (name, ", ".join(diff[:6])), case=case,
                      facts={"op": name.split("[")[0], "kind": "constant-mutated", "what": diff[:3]})
            self.reg0, self.reg0_digest = reg, rd          # report each change once, keep watching
        else:
            rec.ok("M-pure.registry")
        rdig = D.dg(res[1]) if res[0] == "ok" else "exc:" + type(res[1]).__name__
        return [hist, seq, name, hashlib.sha256("|".join(before).encode()).hexdigest()[:16], rdig, rd]


def run(rec):
    import_all()
    quick = rec.tier == "quick"
    mon = Purity(rec)                     # import-time snapshot of the constants, before anything has been called
    pool = build_pool(rec.seed, quick)
    rng = rec.rng
    events = []
    n_hist = 2 if quick else 3
    n_calls = 130 if quick else 700
    weights = [w for (_, _, w, _) in pool]
    adhoc_seen = 0
    for h in range(n_hist):
        hist = "shard%d/h%d" % (rec.shard, h)
        rec.case("history", None, nontrivial=False)
        fresh_persistent_objects()
        seq_ops = rng.choices(range(len(pool)), weights=weights, k=n_calls)
        # repetitions inside one history, at different positions
        for _ in range(n_calls // 6):
            seq_ops.insert(rng.randrange(len(seq_ops)), rng.choice(seq_ops))
        seen = set()
        for seq, oi in enumerate(seq_ops):
            group, name, w, mk = pool[oi]
            fn, args = mk()
            if oi in seen:
                rec.case("repeat-in-history", None, nontrivial=False)
            seen.add(oi)
            if group == "field-adhoc":
                adhoc_seen += 1
                rec.case("adhoc-class-created-mid-history", None, nontrivial=False)
            rec.case("op:" + group, None, nontrivial=False, sample={"op": name, "history": hist, "seq": seq} if seq < 2 else None)
            events.append(mon.call(hist, seq, group, name, fn, args))
    # ---- a concurrent history: the same pool, several threads inside the library at once ("any interleaving of other calls")
    if rec.shard % 2 == 0 or not quick:
        import threading
        n_thr = 4
        fresh_persistent_objects()
        usable = [oi for oi, (g, nm, w, mk) in enumerate(pool) if g not in ("persist", "field-adhoc") and "timeout" not in nm]
        uw = [pool[oi][2] for oi in usable]
        plans = [rng.choices(usable, weights=uw, k=(n_calls // 3 if quick else n_calls // 2)) for _ in range(n_thr)]
        for t in range(1, n_thr):
            plans[t][: len(plans[0]) // 3] = plans[0][: len(plans[0]) // 3][::-1]            # the same operations in several threads, other order
        # second part of every thread's plan: all hashing operations (short calls that share nothing but the library), every thread in
        # another rotation, so that calls with different tags / hash functions / lengths overlap
        hash_ops = [oi for oi in usable if pool[oi][0] == "hash"]
        for t in range(n_thr):
            for rep in range(2 if quick else 8):
                k0 = (t * 7 + rep * 3) % max(1, len(hash_ops))
                plans[t] += hash_ops[k0:] + hash_ops[:k0]
        prepared = [[(pool[oi][1], pool[oi][3]()) for oi in plan] for plan in plans]       # argument objects are built single-threaded by the harness
        import time
        from .common import overlapping_pairs
        measured = [[] for _ in range(n_thr)]
        spans = [[] for _ in range(n_thr)]
        gate = threading.Barrier(n_thr)

        def worker(t):
            try:
                gate.wait(timeout=60)
            except threading.BrokenBarrierError:
                pass
            for name, (fn, args) in prepared[t]:
                t0_ = time.perf_counter()
                measured[t].append((name,) + Purity.measure(fn, args))
                spans[t].append((t0_, time.perf_counter()))
        old_si = sys.getswitchinterval()
        sys.setswitchinterval(2e-5)
        try:
            ths = [threading.Thread(target=worker, args=(t,), daemon=True) for t in range(n_thr)]
            for th in ths:
                th.start()
            for th in ths:
                th.join()
        finally:
            sys.setswitchinterval(old_si)
        for t in range(n_thr):
            hist = "shard%d/threads/t%d" % (rec.shard, t)
            for seq, (name, before, after, rdig) in enumerate(measured[t]):
                rec.case("history:concurrent", None, nontrivial=False, sample={"op": name, "history": hist, "seq": seq} if seq < 1 and t < 2 else None)
                events.append(mon.judge_threaded(hist, seq, name, before, after, rdig))
        mon.registry_check("concurrent history", {"op": "concurrent history", "history": "shard%d/threads" % rec.shard})
        ov = overlapping_pairs(spans)
        rec.event("concurrent-history:overlapping-call-pairs(different threads)", ov)
        if not ov:
            rec.inconclusive.append("concurrent history: no two calls of different threads overlapped in time")
        rec.event("concurrent-history:threads", n_thr)
        rec.event("concurrent-history:calls", sum(len(m) for m in measured))
    rec.case("history:concurrent", None, nontrivial=False)
    rec.blob = {"events": events, "registry_import_digest": mon.reg0_digest, "pool_size": len(pool), "io_events": dict(mon.io_events),
                "hashseed": __import__("os").environ.get("PYTHONHASHSEED")}
    rec.notes["io_audit_events_inside_calls"] = dict(mon.io_events)
    rec.notes["registry_entries"] = len(mon.reg0)


# ------------------------------------------------------------------------------------------------ offline checker
def offline_check(reports, rec):
    """Runs in the parent over the event logs of all shards (= all histories of all interpreters)."""
    logs = [(r.get("shard"), r.get("blob") or {}) for r in reports if "fatal" not in r]
    groups = collections.defaultdict(lambda: collections.defaultdict(list))
    regs = collections.Counter()
    total = 0
    for shard, b in logs:
        regs[b.get("registry_import_digest")] += 1
        for hist, seq, name, adig, rdig, regd in b.get("events", []):
            total += 1
            groups[(name, adig)][rdig].append((hist, seq))
    rec.notes["histories_checked"] = sum(len({e[0] for e in b.get("events", [])}) for _, b in logs)
    rec.notes["events_checked"] = total
    rec.notes["interpreters"] = len(logs)
    rec.notes["hash_seeds"] = sorted({str(b.get("hashseed")) for _, b in logs})
    if not logs or not total:
        rec.inconclusive.append("no event logs were produced")
        return
    # (i) one import-time registry digest across interpreters
    rec.check("H-registry-across-histories", len([k for k in regs if k]) == 1, "registry", "module constants differ between freshly started interpreters: %r" % dict(regs),
              facts={"kind": "registry-differs-across-interpreters"})
    # (iii) functional consistency
    multi = 0
    for (name, adig), by_res in groups.items():
        occ = sum(len(v) for v in by_res.values())
        hists = {h for v in by_res.values() for h, _ in v}
        if occ >= 2:
            multi += 1
            rec.case("consistency-group", None, nontrivial=False)
        if len(hists) >= 2 or occ >= 2:
            rec.count_distinct(1)
        ok = len(by_res) == 1
        rec.check("H-consistency", ok, "consistency", "%s returned different results for equal arguments in different histories: %s" % (
            name, {k: v[:3] for k, v in by_res.items()}), case={"op": name, "args_digest": adig}, facts={"op": name.split("[")[0], "kind": "history-dependent-result"})
    rec.notes["(op,args) pairs observed at >= 2 positions"] = multi
    if len(rec.samples) < 3 and logs:
        ev = logs[0][1].get("events", [])[:3]
        for e in ev:
            rec.samples.append({"class": "event", "case": {"history": e[0], "seq": e[1], "op": e[2], "args_digest": e[3], "result_digest": e[4], "registry_digest": e[5]}})
