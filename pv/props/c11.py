"""C11 — point (de)serialization is a canonical bijection in the ZCash format."""
from __future__ import annotations

from ..model import params, zcash as Z
from ..monitors import conv
from ..monitors import zcash as zmon
from ..monitors.install import import_all
from . import curvegen as CG
from .common import call

SELFTESTS = ["fields", "params", "zcash"]
DECIDING = ["M-zcash.compress", "M-zcash.decompress", "M-zcash.canonical", "M-zcash.bytes", "M-zcash.roundtrip"]
RULE = ("cases = calls of compress_G1/G2, decompress_G1/G2, G1_to_pubkey, pubkey_to_G1, G2_to_signature, signature_to_G2 on the real module, "
        "each judged by a monitor wrapped around the function against pv.model.zcash (flags, x < p, lexicographically larger y, canonical "
        "infinity; own square roots): library accepts => model accepts, same point, on curve, re-encoding equals the input; model rejects => "
        "ValueError; plus a driver-side round-trip oracle decompress(compress(P)) == P on affine images. Points: subgroup, non-subgroup, "
        "small-order torsion, chosen y (cube-root construction: y around (p-1)/2, 0, p; G2 y_im = 0, y_re = 0, y_im = (p+-1)/2), infinity in "
        "four representatives, random projective rescalings. Words: 8 flag combinations x x-classes x second-word classes, random words, "
        "bit flips of valid encodings. distinct = distinct (function, argument); non-trivial = point other than G, 5G, (1,1,0) / word not "
        "among the suite's fixed edge words")
ASSUMPTIONS = ["'every 384-bit word' = integers in [0, 2^384); longer integers / byte strings of other lengths are outside this statement (C04 covers lengths)",
               "compress_G1 is judged on curve points only (it performs no curve check); compress_G2 must refuse off-curve input"]
MK = "opt.bls12_381"
P = params.BLS_P
HALF = (P - 1) // 2
F1, F2, E1, E2 = params.BLS_FP, params.BLS_FP2, params.BLS_E1, params.BLS_E2
TOP = 1 << 383
FLAGS = [(c << 383) | (b << 382) | (a << 381) for c in (0, 1) for b in (0, 1) for a in (0, 1)]


def shards(tier):
    return 16


def required_classes(tier):
    out = []
    for g in ("g1", "g2"):
        out += ["%s:rt:%s" % (g, k) for k in ("fq-typed-coefficients", "subgroup", "nonsubgroup", "torsion", "chosen-y", "infinity", "rescaled")]
        out += ["%s:word:%s" % (g, k) for k in ("grid", "random", "bitflip")]
        out += ["%s:bytes" % g]
    out += ["soak:distinct-words", "g2:rt:y_im=0", "g2:rt:y_re=0", "g2:rt:y_im=half", "g1:rt:x=0", "g2:compress:offcurve"]
    return out


def _lib():
    import py_ecc.bls.g2_primitives as gp
    import py_ecc.bls.point_compression as pc
    return pc, gp


def roundtrip(rec, g, Pt, cls, rng, scale=None, inf_rep=None, key=None, nontrivial=True, fq_coeffs=False):
    pc, gp = _lib()
    F = F1 if g == 1 else F2
    pt = CG.to_lib(MK, Pt, g, rng, scale=scale, inf_rep=inf_rep, fq_coeffs=fq_coeffs)
    rec.case("g%d:rt:%s" % (g, cls), ("rt", g, Pt, scale, inf_rep) if key is None else key, nontrivial=nontrivial,
             sample={"group": "G%d" % g, "class": cls, "point": Pt, "scale": scale, "inf_rep": inf_rep})
    comp, dec = (pc.compress_G1, pc.decompress_G1) if g == 1 else (pc.compress_G2, pc.decompress_G2)
    tob, fromb = (gp.G1_to_pubkey, gp.pubkey_to_G1) if g == 1 else (gp.G2_to_signature, gp.signature_to_G2)
    facts = {"group": "G%d" % g, "affine_x_zero": bool(Pt is not None and not any(Pt[0])), "fn": "roundtrip"}
    case = {"fn": "roundtrip", "g": g, "pt": [list(conv.el(c)) for c in pt]}
    for name, enc, de in (("words", comp, dec), ("bytes", tob, fromb)):
        r = call(enc, pt)
        if r[0] != "ok":
            rec.check("M-zcash.roundtrip", False, "rt", "%s encoding of a curve point raised %r" % (name, r[1]), case=case, facts=dict(facts, kind="encode-raise"))
            continue
        r2 = call(de, r[1])
        if r2[0] != "ok":
            rec.check("M-zcash.roundtrip", False, "rt", "decoding the library's own %s encoding raised %r" % (name, r2[1]), case=case,
                      facts=dict(facts, kind="refused"))
            continue
        try:
            back = conv.aff_from_proj(r2[1], F)
        except Exception as e:
            back = "unreadable: %r" % (e,)
        rec.check("M-zcash.roundtrip", back == Pt, "rt", "decompress(compress(P)) != P (%s)" % name, case=case,
                  facts=dict(facts, kind="value"), expected=Pt, observed=back)


def replay(rec, case):
    import_all()
    zmon.install()
    pc, gp = _lib()
    fn = case["fn"]
    if fn == "roundtrip":
        g = case["g"]
        cls = CG.field_classes(MK)[g]
        pt = tuple(CG.mk_el(cls, tuple(v)) for v in case["pt"])
        F = F1 if g == 1 else F2
        Pt = conv.aff_from_proj(pt, F)
        one = (1,) + (0,) * (g - 1)
        roundtrip(rec, g, Pt, "replay", rec.rng, scale=one if Pt is not None else None, inf_rep="(1,1,0)")
    elif fn in ("compress_G1", "compress_G2", "G1_to_pubkey", "G2_to_signature", "subgroup_check"):
        g = 1 if len(case["pt"][0]) == 1 else 2
        cls = CG.field_classes(MK)[g]
        pt = tuple(CG.mk_el(cls, tuple(v)) for v in case["pt"])
        call(getattr(pc, fn, None) or getattr(gp, fn), pt)
    elif fn == "decompress_G1":
        call(pc.decompress_G1, case["z"])
    elif fn == "decompress_G2":
        call(pc.decompress_G2, (case["z1"], case["z2"]))
    elif fn == "pubkey_to_G1":
        call(gp.pubkey_to_G1, case["bytes"])
    elif fn == "signature_to_G2":
        call(gp.signature_to_G2, case["bytes"])


def chosen_y_points(g, rng, n):
    """Curve points whose y is chosen (cube-root construction)."""
    out = []
    if g == 1:
        cands = []
        for base in (HALF, 0, P):
            for d in range(-40, 41):
                cands.append((base + d) % P)
        rng.shuffle(cands)
        for y in cands:
            Pt = E1.point_with_y((y,), rng)
            if Pt is not None:
                out.append(("chosen-y", Pt))
            if len(out) >= n:
                break
        return out
    kinds = ["y_im=0", "y_re=0", "y_im=half", "chosen-y"]
    want = {k: max(1, n // 4) for k in kinds}
    tries = 0
    while any(want.values()) and tries < 40 * n:
        tries += 1
        kind = kinds[tries % 4]
        if not want[kind]:
            continue
        small = rng.choice([rng.randrange(1, 50), HALF - rng.randrange(0, 20), HALF + 1 + rng.randrange(0, 20), P - rng.randrange(1, 50), rng.randrange(P)])
        if kind == "y_im=0":
            y = (small, 0)
        elif kind == "y_re=0":
            y = (0, small)
        elif kind == "y_im=half":
            y = (rng.randrange(P), rng.choice([HALF, HALF + 1]))
        else:
            y = (rng.choice([HALF, HALF + 1, 1, P - 1]), rng.choice([HALF - 1, HALF + 2, 1, P - 1]))
        Pt = E2.point_with_y(y, rng)
        if Pt is not None:
            out.append((kind, Pt))
            want[kind] -= 1
    return out


def run(rec):
    import_all()
    zmon.install()
    pc, gp = _lib()
    rng = rec.rng
    quick = rec.tier == "quick"
    scale_n = 1 if quick else 10
    G1m, G2m = params.bls_generators()
    gens = {1: G1m, 2: G2m}
    i = 0

    # ---------------------------------------------------------------- point round trips
    for g, E, F in ((1, E1, F1), (2, E2, F2)):
        cof = (params.BLS_H1 if g == 1 else params.BLS_H2) * params.BLS_R      # full group order #E
        n_pts = (6 if g == 1 else 3) * scale_n
        # trivial cases of the existing suite
        if rec.shard == 0:
            roundtrip(rec, g, gens[g], "subgroup", rng, key=("G", g), nontrivial=False)
            roundtrip(rec, g, E.mul(gens[g], 5), "subgroup", rng, key=("5G", g), nontrivial=False)
            roundtrip(rec, g, None, "infinity", rng, inf_rep="(1,1,0)", key=("inf110", g), nontrivial=False)
        for j in range(n_pts):
            k = rng.choice([2, 3, params.BLS_R - 1, rng.randrange(1, params.BLS_R)])
            Pt = E.mul(gens[g], k)
            roundtrip(rec, g, Pt, "subgroup", rng)
            roundtrip(rec, g, Pt, "rescaled", rng, scale=CG.rand_scale(F, rng))
            Nt = E.rand_point(rng)
            roundtrip(rec, g, Nt, "nonsubgroup", rng)
            roundtrip(rec, g, Nt, "rescaled", rng, scale=CG.rand_scale(F, rng))
        # coordinates given as elements with FQ-OBJECT coefficients (legal constructor input), z = 1 and rescaled
        for j in range(2 * scale_n):
            Pt = E.mul(gens[g], rng.randrange(1, params.BLS_R)) if j % 2 else E.rand_point(rng)
            roundtrip(rec, g, Pt, "fq-typed-coefficients", rng, fq_coeffs=True)
            roundtrip(rec, g, Pt, "fq-typed-coefficients", rng, scale=CG.rand_scale(F, rng), fq_coeffs=True)
        for rep in CG.INF_REPS:
            roundtrip(rec, g, None, "infinity", rng, inf_rep=rep)
        qs = list(params.BLS_H1_FACTORS) if g == 1 else list(params.BLS_H2_SMALL_FACTORS)
        for q in (qs if not quick else [qs[rec.shard % len(qs)], qs[0]]):
            T = CG.torsion_point(E, cof, q, rng)
            roundtrip(rec, g, T, "torsion", rng)
            roundtrip(rec, g, E.add(T, E.mul(gens[g], rng.randrange(1, 1 << 64))), "torsion", rng)
        for kind, Pt in chosen_y_points(g, rng, (8 if g == 1 else 8) * scale_n):
            cls = kind if kind.startswith("y_") else "chosen-y"
            roundtrip(rec, g, Pt, cls, rng)
            if cls != "chosen-y":
                rec.case("g2:rt:chosen-y", None, nontrivial=False)
            roundtrip(rec, g, E.neg(Pt), cls, rng, scale=CG.rand_scale(F, rng))
    # the two G1 points with x = 0 (order 3): K1
    for y in (2, P - 2):
        roundtrip(rec, 1, ((0,), (y,)), "x=0", rng)
    # compress_G2 must refuse off-curve input
    for j in range(4):
        Pt = E2.rand_point(rng)
        bad = (Pt[0], F2.add(Pt[1], (1, 0)))
        rec.case("g2:compress:offcurve", ("off", bad))
        call(pc.compress_G2, CG.to_lib(MK, bad, 2, rng, scale=CG.rand_scale(F2, rng) if j % 2 else None))

    # ---------------------------------------------------------------- G1 words
    def x_classes_g1():
        sub = E1.mul(G1m, rng.randrange(1, params.BLS_R))[0][0]
        non = E1.rand_point(rng)[0][0]
        while True:
            off = rng.randrange(P)
            if not E1.lift_x((off,)):
                break
        return [("0", 0), ("1", 1), ("2", 2), ("p-1", P - 1), ("p", P), ("p+1", P + 1), ("2^381-1", (1 << 381) - 1), ("sub", sub), ("non", non),
                ("off", off), ("rand<p", rng.randrange(P)), ("rand>=p", rng.randrange(P, 1 << 381))]

    reps = 12 if quick else 120
    for rep in range(reps):
        for xn, x in x_classes_g1():
            for fl in FLAGS:
                z = fl | x
                rec.case("g1:word:grid", ("w1", z), nontrivial=z not in (TOP, TOP | (1 << 382), 1 << 382), sample={"fn": "decompress_G1", "flags": fl >> 381, "x_class": xn})
                call(pc.decompress_G1, z)
        for j in range(30):
            z = rng.getrandbits(384)
            rec.case("g1:word:random", ("w1", z))
            call(pc.decompress_G1, z)
            bs = rng.randbytes(48)
            rec.case("g1:bytes", ("b1", bs))
            call(gp.pubkey_to_G1, bs)
        # bit flips of a valid encoding
        Pt = E1.mul(G1m, rng.randrange(1, params.BLS_R)) if rep % 2 else E1.rand_point(rng)
        z = Z.enc_g1_word(Pt)
        pos = [383, 382, 381, 380, 0] + rng.sample(range(1, 380), 24 if quick else 100)
        for b in pos:
            zz = z ^ (1 << b)
            rec.case("g1:word:bitflip", ("w1", zz), sample={"fn": "decompress_G1", "bit": b})
            call(pc.decompress_G1, zz)
            call(gp.pubkey_to_G1, zz.to_bytes(48, "big"))
        rec.case("g1:bytes", ("b1", z))
        call(gp.pubkey_to_G1, z.to_bytes(48, "big"))

    # soak: distinct valid words through the decoders, the first ones (both sign flags) re-probed afterwards
    if rec.shard == 4 or not quick:
        from .common import soak_size, soak_then_reprobe
        nso = soak_size(["py_ecc.bls.point_compression", "py_ecc.bls.g2_primitives"])
        P0s = [E1.mul(G1m, rng.randrange(1, params.BLS_R)) for _ in range(3)]
        probes = []
        for Pp_ in P0s:
            for Q_ in (Pp_, E1.neg(Pp_)):
                probes.append(lambda Q_=Q_: (call(pc.decompress_G1, Z.enc_g1_word(Q_)), call(gp.pubkey_to_G1, Z.enc_g1(Q_)), roundtrip(rec, 1, Q_, "subgroup", rng)))

        def distinct_words():
            Pt = E1.mul(G1m, rng.randrange(1, params.BLS_R))
            while True:
                Pt = E1.add(Pt, G1m)
                w = Z.enc_g1_word(Pt)
                yield (lambda w=w: (call(pc.decompress_G1, w), call(gp.pubkey_to_G1, w.to_bytes(48, "big"))))
        soak_then_reprobe(rec, "distinct-words", probes, distinct_words(), nso)
        if not quick:
            S0 = E2.mul(G2m, rng.randrange(1, params.BLS_R))

            def distinct_g2():
                Pt = S0
                while True:
                    Pt = E2.add(Pt, G2m)
                    w = Z.enc_g2_words(Pt)
                    yield (lambda w=w: call(pc.decompress_G2, w))
            soak_then_reprobe(rec, "distinct-words", [lambda: call(pc.decompress_G2, Z.enc_g2_words(S0)), lambda: call(pc.decompress_G2, Z.enc_g2_words(E2.neg(S0)))], distinct_g2(), nso)
    else:
        rec.case("soak:distinct-words", None, nontrivial=False)
    # ---------------------------------------------------------------- G2 word pairs
    reps2 = 2 if quick else 20
    for rep in range(reps2):
        PtS = E2.mul(G2m, rng.randrange(1, params.BLS_R))
        PtN = E2.rand_point(rng)
        while True:
            offx = F2.rand(rng)
            if not E2.lift_x(offx):
                break
        firsts = [("0", 0), ("1", 1), ("p-1", P - 1), ("p", P), ("p+1", P + 1), ("2^381-1", (1 << 381) - 1), ("sub", PtS[0][1]), ("non", PtN[0][1]), ("off", offx[1]), ("rand", rng.randrange(P))]
        seconds = {"sub": PtS[0][0], "non": PtN[0][0], "off": offx[0]}
        generic2 = [("0", 0), ("p-1", P - 1), ("p", P), ("2^381", 1 << 381), ("2^382", 1 << 382), ("2^383", 1 << 383), ("2^384-1", (1 << 384) - 1), ("rand", rng.randrange(P))]
        for xn, x1 in firsts:
            snd = list(generic2)
            if xn in seconds:
                v = seconds[xn]
                snd += [("valid", v), ("valid|2^381", v | (1 << 381)), ("valid|2^383", v | (1 << 383))]
            for fl in FLAGS:
                for sn, z2 in snd:
                    i += 1
                    z1 = fl | x1
                    rec.case("g2:word:grid", ("w2", z1, z2), nontrivial=(z1, z2) not in ((TOP | (1 << 382), 0),),
                             sample={"fn": "decompress_G2", "flags": fl >> 381, "x1_class": xn, "z2_class": sn})
                    call(pc.decompress_G2, (z1, z2))
        for j in range(20):
            z1, z2 = rng.getrandbits(384), rng.getrandbits(384)
            if j % 2:
                z1 = (z1 % P) | TOP | (rng.getrandbits(1) << 381)
                z2 = z2 % P
            rec.case("g2:word:random", ("w2", z1, z2))
            call(pc.decompress_G2, (z1, z2))
            bs = z1.to_bytes(48, "big") + z2.to_bytes(48, "big")
            rec.case("g2:bytes", ("b2", bs))
            call(gp.signature_to_G2, bs)
        for Pt in (PtS, PtN):
            z1, z2 = Z.enc_g2_words(Pt)
            pos = [(0, 383), (0, 382), (0, 381), (1, 383), (1, 382), (1, 381), (0, 0), (1, 0), (0, 380), (1, 380)]
            pos += [(rng.randrange(2), rng.randrange(0, 381)) for _ in range(10 if quick else 60)]
            for w, b in pos:
                zz1, zz2 = (z1 ^ (1 << b), z2) if w == 0 else (z1, z2 ^ (1 << b))
                rec.case("g2:word:bitflip", ("w2", zz1, zz2), sample={"fn": "decompress_G2", "word": w, "bit": b})
                call(pc.decompress_G2, (zz1, zz2))
                call(gp.signature_to_G2, zz1.to_bytes(48, "big") + zz2.to_bytes(48, "big"))
            rec.case("g2:bytes", ("b2", z1, z2))
            call(gp.signature_to_G2, z1.to_bytes(48, "big") + z2.to_bytes(48, "big"))
            # swapped words
            rec.case("g2:word:grid", ("w2", z2 | TOP, z1 & Z.M381))
            call(pc.decompress_G2, (z2 | TOP, z1 & Z.M381))
