"""Point construction for the curve properties (C05, C07, C12, C13, C17)."""
from __future__ import annotations

import importlib

from ..model import params
from ..model.ec import Curve
from ..model.gf import Fld
from ..monitors import curve as cmon

MODKEYS = list(cmon.MODULES)


def lib(modkey):
    """(curve module, pairing module, package)"""
    cmod, pmod, rep, suite = cmon.MODULES[modkey]
    pkg = {"ref.bn128": "py_ecc.bn128", "ref.bls12_381": "py_ecc.bls12_381", "opt.bn128": "py_ecc.optimized_bn128", "opt.bls12_381": "py_ecc.optimized_bls12_381"}[modkey]
    return importlib.import_module(cmod), importlib.import_module(pmod), importlib.import_module(pkg)


def rep_of(modkey):
    return cmon.MODULES[modkey][2]


def suite_of(modkey):
    return params.suite(cmon.MODULES[modkey][3])


def field_classes(modkey):
    c = lib(modkey)[0]
    return {1: c.FQ, 2: c.FQ2, 12: c.FQ12}


def mk_el(cls, v):
    return cls(v[0]) if len(v) == 1 else cls(list(v))


def to_lib(modkey, Pt, deg, rng=None, scale=None, inf_rep=None, classes=None):
    """Model affine point -> library point of module ``modkey`` over the degree-``deg`` field.
    optimized: optional projective rescaling (x*s, y*s, s); infinity in a chosen representative."""
    classes = classes or field_classes(modkey)
    cls = classes[deg]
    rep = rep_of(modkey)
    k = deg
    if rep == "ref":
        if Pt is None:
            return None
        return (mk_el(cls, Pt[0]), mk_el(cls, Pt[1]))
    one = (1,) + (0,) * (k - 1)
    zero = (0,) * k
    if Pt is None:
        r = inf_rep or "(1,1,0)"
        if r == "(1,1,0)":
            return (mk_el(cls, one), mk_el(cls, one), mk_el(cls, zero))
        if r == "(0,1,0)":
            return (mk_el(cls, zero), mk_el(cls, one), mk_el(cls, zero))
        if r == "(0,0,0)":
            return (mk_el(cls, zero), mk_el(cls, zero), mk_el(cls, zero))
        xs = tuple(rng.randrange(1, cls.field_modulus) for _ in range(k))
        ys = tuple(rng.randrange(1, cls.field_modulus) for _ in range(k))
        return (mk_el(cls, xs), mk_el(cls, ys), mk_el(cls, zero))
    if scale is None:
        return (mk_el(cls, Pt[0]), mk_el(cls, Pt[1]), mk_el(cls, one))
    x, y, z = mk_el(cls, Pt[0]), mk_el(cls, Pt[1]), mk_el(cls, scale)
    return (x * z, y * z, z)


def rand_scale(F, rng):
    while True:
        s = F.rand(rng)
        if any(s):
            return s


INF_REPS = ["(1,1,0)", "(0,1,0)", "(0,0,0)", "(x,y,0)"]


def torsion_point(E, cofactor_order, q, rng):
    """A point of exact prime order q on E (q | #E): ([#E/q^e] random) adjusted."""
    n = cofactor_order
    e = 0
    m = n
    while m % q == 0:
        m //= q
        e += 1
    while True:
        T = E.mul(E.rand_point(rng), m)          # order divides q^e
        if T is None:
            continue
        while True:
            T2 = E.mul(T, q)
            if T2 is None:
                return T
            T = T2


def small_curves(pmax, deg2_ps=(), odd_only=True):
    """[(F, b, points)] for y^2 = x^3 + b over GF(p) (and GF(p^2)) with #E odd (or any)."""
    from ..model.gf import is_irreducible, is_prime
    out = []
    for p in range(5, pmax + 1):
        if not is_prime(p):
            continue
        F = Fld(p)
        for b in range(1, p):
            E = Curve(F, 0, b)
            pts = E.all_points()
            if len(pts) >= 3 and (len(pts) % 2 == 1 or not odd_only):
                out.append((F, (b,), pts))
    for p in deg2_ps:
        mcs = [mc for mc in ((1, 0), (2, 0), (3, 0), (1, 1), (2, 1)) if is_irreducible(mc, p)][:2]
        for mc in mcs:
            F = Fld(p, mc)
            n = 0
            for b in F.all_elements():
                if not any(b):
                    continue
                E = Curve(F, F.zero, b)
                pts = E.all_points()
                if len(pts) >= 3 and (len(pts) % 2 == 1 or not odd_only):
                    out.append((F, tuple(b), pts))
                    n += 1
                    if n >= 3:
                        break
    return out
