"""Point construction for the curve properties (C05, C07, C12, C13, C17)."""
from __future__ import annotations

import importlib

from ..model import params
from ..model.ec import Curve
from ..model.gf import Fld
from ..monitors import curve as cmon

MODKEYS = list(cmon.MODULES)


def lib(modkey):
    """(curve module, pairing module, package)"""
    cmod, pmod, rep, suite = cmon.MODULES[modkey]
    pkg = {"ref.bn128": "py_ecc.bn128", "ref.bls12_381": "py_ecc.bls12_381", "opt.bn128": "py_ecc.optimized_bn128", "opt.bls12_381": "py_ecc.optimized_bls12_381"}[modkey]
    return importlib.import_module(cmod), importlib.import_module(pmod), importlib.import_module(pkg)


def rep_of(modkey):
    return cmon.MODULES[modkey][2]


def suite_of(modkey):
    return params.suite(cmon.MODULES[modkey][3])


def field_classes(modkey):
    c = lib(modkey)[0]
    return {1: c.FQ, 2: c.FQ2, 12: c.FQ12}


def mk_el(cls, v):
    return cls(v[0]) if len(v) == 1 else cls(list(v))


_FQ_FOR = {}


def mk_el_fq_coeffs(cls, v):
    """Extension-field element whose coefficients are FQ OBJECTS of the same prime (the constructors accept
    Sequence[IntOrFQ]); prime-field elements are built from an FQ object too."""
    import py_ecc.fields.field_elements as ref
    import py_ecc.fields.optimized_field_elements as opt
    base = opt.FQ if cls.__module__.startswith("py_ecc.fields.optimized") or issubclass(cls, (opt.FQ, opt.FQP)) else ref.FQ
    key = (base, cls.field_modulus)
    fq = _FQ_FOR.get(key)
    if fq is None:
        fq = _FQ_FOR[key] = type("CoeffFQ", (base,), {"field_modulus": cls.field_modulus})
    if len(v) == 1:
        return cls(cls(v[0]))
    return cls([fq(c) for c in v])


def to_lib(modkey, Pt, deg, rng=None, scale=None, inf_rep=None, classes=None, fq_coeffs=False):
    """Model affine point -> library point of module ``modkey`` over the degree-``deg`` field.
    optimized: optional projective rescaling (x*s, y*s, s); infinity in a chosen representative."""
    classes = classes or field_classes(modkey)
    cls = classes[deg]
    rep = rep_of(modkey)
    k = deg
    if rep == "ref":
        if Pt is None:
            return None
        return (mk_el(cls, Pt[0]), mk_el(cls, Pt[1]))
    one = (1,) + (0,) * (k - 1)
    zero = (0,) * k
    if Pt is None:
        r = inf_rep or "(1,1,0)"
        if r == "(1,1,0)":
            return (mk_el(cls, one), mk_el(cls, one), mk_el(cls, zero))
        if r == "(0,1,0)":
            return (mk_el(cls, zero), mk_el(cls, one), mk_el(cls, zero))
        if r == "(0,0,0)":
            return (mk_el(cls, zero), mk_el(cls, zero), mk_el(cls, zero))
        xs = tuple(rng.randrange(1, cls.field_modulus) for _ in range(k))
        ys = tuple(rng.randrange(1, cls.field_modulus) for _ in range(k))
        return (mk_el(cls, xs), mk_el(cls, ys), mk_el(cls, zero))
    mk = mk_el_fq_coeffs if fq_coeffs else mk_el
    if scale is None:
        return (mk(cls, Pt[0]), mk(cls, Pt[1]), mk(cls, one))
    if fq_coeffs:
        Fm = (params.suite(cmon.MODULES[modkey][3]).F1 if k == 1 else params.suite(cmon.MODULES[modkey][3]).F2) if k in (1, 2) else None
        if Fm is not None:
            return (mk(cls, Fm.mul(Pt[0], scale)), mk(cls, Fm.mul(Pt[1], scale)), mk(cls, tuple(scale)))
    x, y, z = mk_el(cls, Pt[0]), mk_el(cls, Pt[1]), mk_el(cls, scale)
    return (x * z, y * z, z)


def rand_scale(F, rng):
    """A non-zero projective scale factor: usually uniformly random, about one time in four a SPECIAL one (a coefficient
    zero, all coefficients equal, small, p-1, a value related to CPython's int-hash modulus, the twists' change-of-basis
    shifts 1 and 9)."""
    if rng.random() < 0.25:
        p = F.p
        c = rng.choice([1, 2, 7, p - 1, (p + 1) // 2, ((1 << 61) - 1) % p or 3, rng.randrange(1, p)])
        if F.k == 1:
            return (c % p,)
        if F.k == 2:
            return rng.choice([(c, 0), (0, c), (c, c), ((-c) % p, c), (9 * c % p, c), (c, 9 * c % p)])
        k = F.k
        t = [0] * k
        t[rng.randrange(k)] = c
        if rng.random() < 0.5:
            t[rng.randrange(k)] = rng.randrange(1, p)
        if any(t):
            return tuple(t)
    while True:
        s = F.rand(rng)
        if any(s):
            return s


INF_REPS = ["(1,1,0)", "(0,1,0)", "(0,0,0)", "(x,y,0)"]


def torsion_point(E, cofactor_order, q, rng):
    """A point of exact prime order q on E (q | #E): ([#E/q^e] random) adjusted."""
    n = cofactor_order
    e = 0
    m = n
    while m % q == 0:
        m //= q
        e += 1
    while True:
        T = E.mul(E.rand_point(rng), m)          # order divides q^e
        if T is None:
            continue
        while True:
            T2 = E.mul(T, q)
            if T2 is None:
                return T
            T = T2


def small_curves(pmax, deg2_ps=(), odd_only=True):
    """[(F, b, points)] for y^2 = x^3 + b over GF(p) (and GF(p^2)) with #E odd (or any)."""
    from ..model.gf import is_irreducible, is_prime
    out = []
    for p in range(5, pmax + 1):
        if not is_prime(p):
            continue
        F = Fld(p)
        for b in range(1, p):
            E = Curve(F, 0, b)
            pts = E.all_points()
            if len(pts) >= 3 and (len(pts) % 2 == 1 or not odd_only):
                out.append((F, (b,), pts))
    for p in deg2_ps:
        mcs = [mc for mc in ((1, 0), (2, 0), (3, 0), (1, 1), (2, 1)) if is_irreducible(mc, p)][:2]
        for mc in mcs:
            F = Fld(p, mc)
            n = 0
            for b in F.all_elements():
                if not any(b):
                    continue
                E = Curve(F, F.zero, b)
                pts = E.all_points()
                if len(pts) >= 3 and (len(pts) % 2 == 1 or not odd_only):
                    out.append((F, tuple(b), pts))
                    n += 1
                    if n >= 3:
                        break
    return out


# ---------------------------------------------------------------- adversarially related operands
M61 = (1 << 61) - 1          # CPython hashes ints modulo this prime: n and n + k*M61 are distinct ints with equal hash()


def cube_root_of_unity(p):
    """A primitive cube root of unity in GF(p) (p = 1 mod 3 for all curves here)."""
    g = 2
    while True:
        b = pow(g, (p - 1) // 3, p)
        if b != 1:
            return b
        g += 1


def endo(F, Pt, times=1):
    """(x, y) -> (beta^times * x, y): another point of the same j = 0 curve with the SAME y (and the same order)."""
    if Pt is None:
        return None
    b = pow(cube_root_of_unity(F.p), times, F.p)
    return (tuple(c * b % F.p for c in Pt[0]), Pt[1])


def sparse_scales(F, Pt, shift=None):
    """Projective scale factors that make some coefficient of a coordinate vanish (for extension fields), or that are
    special in the base field: conj-like factors (X or Y becomes 'real'), purely real / purely imaginary z, and z with a
    vanishing constant term after the twist's change of basis (z0 = shift * z1)."""
    p = F.p
    out = []
    if F.k == 1:
        for s in (2, p - 1, (p + 1) // 2, M61 % p or 3):
            out.append((s % p,))
        return out
    if F.k != 2:
        return out
    one = F.one
    for c in (1, 7):
        out += [(c, 0), (0, c), (c, c), ((-c) % p, c)]
        if shift:
            out.append((shift * c % p, c))             # constant term of the twisted z vanishes
            out.append((c, shift * c % p))
    if Pt is not None:
        for coord in Pt:
            conj = (coord[0], (-coord[1]) % p)
            if any(conj):
                out.append(conj)                         # coord * conj = norm: imaginary part 0
                out.append(F.mul(conj, (0, 1)))          # ... real part 0
    return [s for s in out if any(s)]


def same_xy_other_z(E, X, Y, rng=None):
    """Roots Z of  b*Z^3 - Y^2*Z + X^3 = 0  over GF(p) (prime field, a = 0): every root gives a projective triple (X, Y, Z)
    on y^2 z = x^3 + b z^3.  For a triple (X, Y, Z1) of the curve, Z1 is a root; the others (if any) are DIFFERENT points that
    share the raw X and Y."""
    from ..model.gf import poly_roots_fp
    F = E.F
    if F.k != 1:
        return []
    p = F.p
    b = E.b[0]
    return poly_roots_fp([pow(X, 3, p), (-Y * Y) % p, 0, b % p], p, rng)


def fold_colliding(x, p, rng, n=6):
    """Values y != x (mod p) that agree with x under the cheap folds a hand-written cache key might use: XOR-fold and ADD-fold of
    64-bit (and 32-bit) limbs, the low 64 bits, the high 64 bits, x mod (2^61 - 1)."""
    out = []
    nb = max(p.bit_length(), 192)
    for _ in range(n):
        d = rng.getrandbits(62) | 1
        i_, j_ = rng.sample(range(0, nb // 64), 2) if nb // 64 >= 2 else (0, 1)
        out.append(x ^ (d << (64 * i_)) ^ (d << (64 * j_)))                 # same XOR-fold-64
        out.append(x + (d << (64 * i_)) - (d << (64 * j_)))                 # same ADD-fold-64 (mod 2^64) when no limb wraps
        out.append(x ^ ((d & 0xFFFFFFFF) << 32 * (2 * i_)) ^ ((d & 0xFFFFFFFF) << (32 * (2 * j_ + 1))))   # same XOR-fold-32
        out.append(x + (d << 64))                                            # same low 64 bits
        out.append(x ^ (d >> 2))                                             # same high bits
        out.append(x + d * M61)                                              # same hash()
    return [y for y in out if 0 <= y < p and y != x]


def ladder_special_scalars(r, rng, n):
    """Scalars whose binary PREFIXES (= the accumulator of a left-to-right ladder, the quotient n >> j of a right-to-left or
    recursive one, the top windows of a windowed one) are 0, +-1, +-2 modulo the group order r, or (r +- 1)/2: in the
    middle of the multiplication the accumulator is then the identity, +-P or +-2P, and the next addition is one of the
    special cases of the group law (P + P, P + (-P), P + O) instead of the generic one."""
    heads = [r, r + 1, r - 1, r + 2, r - 2, 2 * r, 2 * r + 1, 2 * r - 1, (r + 1) // 2, (r - 1) // 2, 3 * r, (r + 1) // 2 + r]
    out = []
    for _ in range(n):
        h = heads[rng.randrange(len(heads))]
        j = rng.choice([1, 2, 3, 4, 5, 8, 16, 63, 64, 65])
        out.append((h << j) | rng.getrandbits(j))
    return out


def endo_scalars(n):
    """Scalars algebraically tied to the j = 0 endomorphism (x, y) -> (beta x, y) of a group of prime order n = 1 mod 3:
    its eigenvalues lam (the two primitive cube roots of unity mod n) and their neighbours / small combinations.  k*P for
    such k meets phi(P) and phi^2(P) - points with the same y - inside double-and-add ladders."""
    if n % 3 != 1:
        return []
    g = 2
    while True:
        lam = pow(g, (n - 1) // 3, n)
        if lam != 1:
            break
        g += 1
    out = []
    for l in (lam, lam * lam % n):
        out += [l, l + 1, l - 1, 2 * (l + 1), 2 * (l + 1) + 1, n - l, n - l - 1, n - l + 1, 2 * l, 2 * l + 1, 3 * l, l + 2, (l + 1) * 4, (l + 1) * 4 + 3, l + n, 2 * l + 2 * n]
    return [k for k in out if k > 0]


def eigen_torsion(E, group_order, q, rng, tries=3):
    """Points of exact prime order q in the EIGENSPACES of the j = 0 endomorphism sigma (x, y) -> (beta x, y) acting on the
    rational q-torsion: for q = 1 mod 3, sigma has eigenvalues mu1, mu2 (the primitive cube roots of unity mod q) and
    (sigma - mu2) T, (sigma - mu1) T lie in the mu1- resp. mu2-eigenspace.  A subgroup test built on the endomorphism with a
    wrong eigenvalue accepts exactly one such eigenspace; a random torsion point hits it with probability ~1/q."""
    out = []
    if q % 3 != 1:
        return out
    g = 2
    while pow(g, (q - 1) // 3, q) == 1:
        g += 1
    mu1 = pow(g, (q - 1) // 3, q)
    mu2 = mu1 * mu1 % q
    F = E.F
    for _ in range(tries):
        T = torsion_point(E, group_order, q, rng)
        sT = endo(F, T)
        if not E.on_curve(sT):
            return out
        for mu in (mu1, mu2):
            V = E.add(sT, E.neg(E.mul(T, mu)))
            if V is not None and E.mul(V, q) is None:
                out.append(V)
        if len(out) >= 2:
            break
    return out
