"""C10 — hash_to_curve follows RFC 9380 and always lands in the prime-order subgroup."""
from __future__ import annotations

import importlib

from ..model import h2c as M
from ..model import params
from ..monitors import conv
from ..monitors import h2c as hmon
from ..monitors.install import import_all
from . import curvegen as CG
from .common import HASHES, call, msg_pool

SELFTESTS = ["fields", "params", "h2c"]
DECIDING = ["M-h2c.swu", "M-h2c.sgn0", "M-h2c.iso", "M-h2c.map", "M-h2c.clear", "M-h2c.hash", "M-h2c.subgroup", "M-h2c.h2f"]
RULE = ("cases = calls of map_to_curve_G1/G2 (with optimized_swu_G*, iso_map_G* observed inside and also driven directly on rescaled "
        "isogenous-curve points) and hash_to_G1/G2 on the real modules; every stage is judged by a monitor wrapped around the function against "
        "pv.model.h2c: RFC 9380 6.6.2 straight-line SSWU with inv0, sgn0(y) = sgn0(u), appendix-E rational maps, [h_eff]P, hash_to_field, "
        "final point on curve and [r]P = O. u classes: 0, +-1, +-i, 1+-i, (p+-1)/2, the exceptional inputs (G1: +-sqrt(-1/Z); G2: u = 0 only, "
        "-1/Z is a non-square), zero real / zero imaginary part, small Z*u^2, random; the G2 square-root search outcome (which of 4 roots of "
        "unity / 4 eta candidates) is classified model-side and all 8 outcomes are required; hashes over messages 0..4 KiB, DST lengths 0, 1, 43, "
        "255 (256 must raise), 6 hash functions. distinct = distinct (function, input); non-trivial = not an RFC 9380 J.9/J.10 vector input")
ASSUMPTIONS = ["isogeny coefficient tables are a pinned copy validated algebraically by the model self-test (images on E, homomorphism) and by RFC vectors"]
MK = "opt.bls12_381"
P = params.BLS_P
F1, F2 = params.BLS_FP, params.BLS_FP2
RFC_MSGS = {b"", b"abc", b"abcdef0123456789", b"q128_" + b"q" * 128, b"a512_" + b"a" * 512}
RFC_DSTS = {b"QUUX-V01-CS02-with-BLS12381G1_XMD:SHA-256_SSWU_RO_", b"QUUX-V01-CS02-with-BLS12381G2_XMD:SHA-256_SSWU_RO_"}
H2C_HASHES = ["sha256", "sha512", "sha384", "sha3_256", "blake2b", "sha1"]


def shards(tier):
    return 16


def required_classes(tier):
    out = ["g2:u:candidate-residual-has-zero-coordinate", "hash:related-messages", "g1:iso:kernel", "g2:iso:kernel", "g1:u:maps-to-kernel", "g2:u:maps-to-kernel", "g1:u:exceptional", "g1:u:zero", "g1:u:special", "g1:u:random", "g2:u:zero", "g2:u:special", "g2:u:zero-part", "g2:u:random",
           "g1:hash", "g2:hash", "hash:dst=255", "hash:dst=256", "hash:dst=0", "g1:iso:rescaled", "g2:iso:rescaled",
           "g1:gx1:square", "g1:gx1:nonsquare", "g2:gx1:square", "g2:gx1:nonsquare"]
    out += ["g2:sqrt:root%d" % k for k in range(4)] + ["g2:sqrt:eta%d" % k for k in range(4)]
    out += ["hash:H=" + h for h in H2C_HASHES]
    return out


def _lib():
    h2c = importlib.import_module("py_ecc.bls.hash_to_curve")
    swu = importlib.import_module("py_ecc.optimized_bls12_381.optimized_swu")
    return h2c, swu


def _consts():
    try:
        c = importlib.import_module("py_ecc.optimized_bls12_381.constants")
        roots = [conv.el_mod(x, P) for x in c.POSITIVE_EIGHTH_ROOTS_OF_UNITY]
        etas = [conv.el_mod(x, P) for x in c.ETAS]
        if len(roots) == 4 and len(etas) == 4:
            return roots, etas
    except Exception:
        pass
    return None


def g2_sqrt_branch(u, consts):
    """Which candidate of the optimized square-root search succeeds for input u (model arithmetic;
    the library's tables are read raw and used only to name the branch)."""
    roots, etas = consts
    F = F2
    S = M.G2_SSWU
    A, B, Z = S.A, S.B, S.Z
    t2 = F.mul(u, u)
    zt2 = F.mul(Z, t2)
    tmp = F.add(zt2, F.mul(zt2, zt2))
    D = F.neg(F.mul(A, tmp))
    N = F.mul(B, F.add(tmp, F.one))
    if F.is_zero(D):
        D = F.mul(Z, A)
    v = F.pow(D, 3)
    uu = F.add(F.add(F.pow(N, 3), F.mul(A, F.mul(N, F.mul(D, D)))), F.mul(B, v))
    t1 = F.mul(uu, F.pow(v, 7))
    gamma = F.mul(F.pow(F.mul(t1, F.pow(v, 8)), (P * P - 9) // 16), t1)
    for k, r in enumerate(roots):
        c = F.mul(r, gamma)
        if F.mul(F.mul(c, c), v) == uu:
            return "root%d" % k
    cand = F.mul(gamma, F.pow(u, 3))
    u2 = F.mul(F.pow(zt2, 3), uu)
    for k, e in enumerate(etas):
        c = F.mul(e, cand)
        if F.mul(F.mul(c, c), v) == u2:
            return "eta%d" % k
    return "none"


def u_pool_g1(rng, n_random):
    half = (P - 1) // 2
    out = [("zero", (0,))]
    out += [("exceptional", u) for u in M.exceptional_inputs_g1() if any(u)]
    out += [("special", (v % P,)) for v in (1, -1, 2, -2, half, half + 1, P - 1, 11, -11)]
    # Z*u^2 small: u = sqrt(k/Z)
    for k in (1, 2, 3, 5, -1, -2):
        r = F1.sqrt(F1.mul((k % P,), F1.inv((11,))))
        if r is not None:
            out.append(("special", r))
    out += [("random", F1.rand(rng)) for _ in range(n_random)]
    return out


def u_pool_g2(rng, n_random):
    half = (P - 1) // 2
    out = [("zero", (0, 0))]
    sp = [(1, 0), (P - 1, 0), (0, 1), (0, P - 1), (1, 1), (1, P - 1), (P - 1, 1), (half, 0), (half + 1, 0), (0, half), (half, half + 1), (P - 2, P - 1), (2, 1)]
    out += [("special", u) for u in sp]
    for _ in range(max(2, n_random // 6)):
        out.append(("zero-part", (rng.randrange(1, P), 0)))
        out.append(("zero-part", (0, rng.randrange(1, P))))
        out.append(("zero-part", (2 * rng.randrange(1, P // 2), rng.randrange(P) | 1)))       # x0 even non-zero, x1 odd (sgn0 corner)
    Zi = F2.inv(M.G2_SSWU.Z)
    for k in (1, 2, -1):
        r = F2.sqrt(F2.mul((k % P, 0), Zi))
        if r is not None:
            out.append(("special", r))
    out += [("random", F2.rand(rng)) for _ in range(n_random)]
    return out


def residual_zero_coordinate_inputs(rng, n_polys):
    """Field elements t in Fp2 at which a residual of a square-root CANDIDATE TEST has exactly one zero coordinate.

    Any constant-time square root of the ratio g(x1) = u/v, u = N^3 + A N D^2 + B D^3, v = D^3 (RFC 9380 F.2.1 / eprint 2019/403
    section 4) forms a candidate gamma with gamma^2 v / u an 8th root of unity, multiplies it by roots of unity (resp. by
    sqrt(Z^3 / omega) for x2) and tests candidate^2 v - u == 0.  For a WRONG candidate the tested residual is (omega - 1) u(t), resp.
    Z^3 (omega - 1) t^6 u(t), omega an 8th root of unity != 1: a polynomial in t.  A test that inspects coordinates instead of the
    value (one coordinate, `any`/`all` slips) misfires exactly where one coordinate of that polynomial vanishes - a set of density
    2/p that random inputs never meet, but which is found by fixing Im(t) = b, interpolating coordinate_j(c W(a + b i)) as a
    polynomial in a over Fp (degree <= 18) and taking its roots."""
    from ..model.gf import poly_roots_fp
    F, S = F2, M.G2_SSWU
    p = F.p
    A, B, Z = S.A, S.B, S.Z

    def u_of(t):
        zt2 = F.mul(Z, F.mul(t, t))
        tmp = F.add(zt2, F.mul(zt2, zt2))
        D = F.neg(F.mul(A, tmp))
        N = F.mul(B, F.add(tmp, F.one))
        v = F.mul(D, F.mul(D, D))
        return F.add(F.add(F.mul(N, F.mul(N, N)), F.mul(A, F.mul(N, F.mul(D, D)))), F.mul(B, v))
    # the eight 8th roots of unity
    w8 = None
    while w8 is None:
        c_ = F.pow(F.rand(rng), (p * p - 1) // 8)
        if F.pow(c_, 4) != F.one:
            w8 = c_
    roots8 = [F.pow(w8, k) for k in range(1, 8)]
    Z3 = F.mul(Z, F.mul(Z, Z))
    # first test (roots of unity times gamma): omega any 8th root; second test (x2 candidates): omega = ratio of two admissible
    # gamma^2 v / u values = a 4th root of unity
    consts = [(F.sub(w, F.one), 0) for w in roots8] + [(F.mul(Z3, F.sub(w, F.one)), 6) for w in roots8 if F.pow(w, 4) == F.one] * 2
    out = []
    for _ in range(n_polys):
        c, k = consts[rng.randrange(len(consts))]
        j = rng.randrange(2)
        b = rng.randrange(1, p)
        deg = 12 + k
        xs = list(range(1, deg + 3))
        ys = []
        for a in xs:
            t = (a, b)
            ys.append(F.mul(c, F.mul(F.pow(t, k), u_of(t)))[j])
        # Newton interpolation -> coefficients (low degree first)
        coef = list(ys)
        for lvl in range(1, len(xs)):
            for i_ in range(len(xs) - 1, lvl - 1, -1):
                coef[i_] = (coef[i_] - coef[i_ - 1]) * pow(xs[i_] - xs[i_ - lvl], -1, p) % p
        poly = [0]
        for i_ in range(len(xs) - 1, -1, -1):
            # poly = poly * (x - xs[i_]) + coef[i_]
            nxt = [0] * (len(poly) + 1)
            for d_, cf in enumerate(poly):
                nxt[d_ + 1] = (nxt[d_ + 1] + cf) % p
                nxt[d_] = (nxt[d_] - cf * xs[i_]) % p
            nxt[0] = (nxt[0] + coef[i_]) % p
            poly = nxt
        for a in poly_roots_fp(poly, p, rng):
            t = (a % p, b)
            val = F.mul(c, F.mul(F.pow(t, k), u_of(t)))
            if val[j] == 0 and val[1 - j] != 0:
                out.append((t, "omega-1" if k == 0 else "Z^3(omega-1)t^6", j))
    return out


def kernel_inputs(g, rng):
    """Points of the isogenous curve E' that the isogeny sends to the identity (rational roots of the x-denominator), and
    field elements u whose simplified-SWU image is such a point (the SWU equations solved backwards).  RFC 9380 defines the
    map on all of E'; on the kernel the result is the identity."""
    from ..model.gf import poly_roots_fp
    F, S, iso = (F1, M.G1_SSWU, M.ISO11) if g == 1 else (F2, M.G2_SSWU, M.ISO3)
    xs = []
    if g == 1:
        xs = [(r,) for r in poly_roots_fp([c[0] for c in iso.xd], F.p, rng)]
    else:
        # x^2 + k1 x + k0 over Fp2 (the table's x-denominator has degree 2): quadratic formula
        co = [c for c in iso.xd]
        while len(co) > 1 and not any(co[-1]):
            co.pop()
        if len(co) == 3:
            a2, a1, a0 = co[2], co[1], co[0]
            disc = F.sub(F.mul(a1, a1), F.smul(F.mul(a2, a0), 4))
            sq = F.sqrt(disc)
            if sq is not None:
                inv2a = F.inv(F.smul(a2, 2))
                xs = [F.mul(F.sub(F.neg(a1), sq), inv2a), F.mul(F.add(F.neg(a1), sq), inv2a)]
    pts, us = [], []
    A, B, Z = S.A, S.B, S.Z
    mBA = F.mul(F.neg(B), F.inv(A))
    for x in xs:
        y = F.sqrt(S.E.rhs(x))
        if y is None:
            continue
        pts += [(tuple(x), y), (tuple(x), F.neg(y))]
        cprime = F.mul(x, F.inv(mBA))                       # x * (-A/B)
        cands = []
        c = F.sub(cprime, F.one)                            # x = x1(t):  1/(t^2+t) = c
        if any(c):
            d = F.sqrt(F.add(F.one, F.smul(F.inv(c), 4)))
            if d is not None:
                half = F.inv(F.smul(F.one, 2))
                cands += [F.mul(F.sub(d, F.one), half), F.mul(F.sub(F.neg(d), F.one), half)]
        b1 = F.sub(F.one, cprime)                           # x = t*x1(t):  t^2 + (1-c')t + (1-c') = 0
        d2 = F.sqrt(F.sub(F.mul(b1, b1), F.smul(b1, 4)))
        if d2 is not None:
            half = F.inv(F.smul(F.one, 2))
            cands += [F.mul(F.sub(d2, b1), half), F.mul(F.sub(F.neg(d2), b1), half)]
        for t in cands:
            u = F.sqrt(F.mul(t, F.inv(Z)))
            if u is None:
                continue
            for uu in (u, F.neg(u)):
                Q, _ = S.map(uu)
                if Q[0] == tuple(x):
                    us.append(uu)
    return pts, us


def run(rec):
    import_all()
    hmon.install(["h2f1", "h2f2", "swu1", "swu2", "iso1", "iso2", "map1", "map2", "clear1", "clear2", "hash1", "hash2"])
    h2c, swu = _lib()
    rng = rec.rng
    quick = rec.tier == "quick"
    cls = CG.field_classes(MK)
    consts = _consts()
    if consts is None:
        rec.unavailable.append("optimized_bls12_381.constants.ETAS/POSITIVE_EIGHTH_ROOTS_OF_UNITY (branch naming)")

    n_rand = 40 if quick else 1500
    # ------------------------------------------------------------ map_to_curve
    for g, pool, F, S in ((1, u_pool_g1(rng, n_rand), F1, M.G1_SSWU), (2, u_pool_g2(rng, n_rand * 3 // 2), F2, M.G2_SSWU)):
        mp = getattr(h2c, "map_to_curve_G%d" % g)
        sw = getattr(swu, "optimized_swu_G%d" % g)
        iso = getattr(swu, "iso_map_G%d" % g)
        for j, (kind, u) in enumerate(pool):
            if kind != "random" and not rec.mine(j) and not quick:
                continue
            rec.case("g%d:u:%s" % (g, kind), ("map", g, u), sample={"fn": "map_to_curve_G%d" % g, "u_class": kind, "u": u})
            _, tr = S.map(u)
            rec.case("g%d:gx1:%s" % (g, "square" if tr["gx1_square"] else "nonsquare"), None, nontrivial=False)
            if g == 2 and consts is not None:
                b = g2_sqrt_branch(u, consts)
                rec.case("g2:sqrt:" + b, None, nontrivial=False)
            call(mp, CG.mk_el(cls[g], u))
            if kind != "random" or j % 8 == 0:
                call(sw, CG.mk_el(cls[g], u))
        # isogeny directly, on rescaled representatives of E' points (the map is homogeneous in z)
        for j in range(6 if quick else 60):
            Q = S.E.rand_point(rng)
            s = CG.rand_scale(F, rng)
            x, y, z = (CG.mk_el(cls[g], Q[0]) * CG.mk_el(cls[g], s), CG.mk_el(cls[g], Q[1]) * CG.mk_el(cls[g], s), CG.mk_el(cls[g], s))
            rec.case("g%d:iso:rescaled" % g, ("iso", g, Q, s))
            call(iso, x, y, z)

    # ------------------------------------------------------------ the kernel of the isogeny (image = identity) and its SWU preimages
    for g in (1, 2):
        F = F1 if g == 1 else F2
        kp, ku = kernel_inputs(g, rng)
        rec.notes.setdefault("isogeny_kernel_G%d" % g, "%d rational kernel points, %d field elements u mapped onto them" % (len(kp), len(ku)))
        iso = getattr(swu, "iso_map_G%d" % g)
        mp = getattr(h2c, "map_to_curve_G%d" % g)
        clr = getattr(h2c, "clear_cofactor_G%d" % g)
        for Q in kp:
            for sc in (None, CG.rand_scale(F, rng)):
                zc = F.one if sc is None else sc
                x, y, z = (CG.mk_el(cls[g], F.mul(Q[0], zc)), CG.mk_el(cls[g], F.mul(Q[1], zc)), CG.mk_el(cls[g], zc))
                rec.case("g%d:iso:kernel" % g, ("isok", g, Q, sc), sample={"fn": "iso_map_G%d" % g, "point": "kernel point of the isogeny", "x": Q[0]})
                st, img = call(iso, x, y, z)
                if st == "ok":
                    call(clr, img)                                    # what hash_to_curve does next with such an image
        for u in ku:
            rec.case("g%d:u:maps-to-kernel" % g, ("uker", g, u), sample={"fn": "map_to_curve_G%d" % g, "u": u, "class": "SWU image in the kernel of the isogeny"})
            call(mp, CG.mk_el(cls[g], u))
        if not kp:
            rec.waive("g%d:iso:kernel" % g, "the x-denominator of the isogeny has no root with a rational y on E'")
        if not ku:
            rec.waive("g%d:u:maps-to-kernel" % g, "no field element maps onto a rational kernel point")

    # ------------------------------------------------------------ t at which a candidate-test residual has one zero coordinate
    rz = residual_zero_coordinate_inputs(rng, 16 if quick else 160)
    rec.event("g2:residual-zero-coordinate:inputs-found", len(rz))
    for t, kind, j in rz:
        rec.case("g2:u:candidate-residual-has-zero-coordinate", ("rz", t), sample={"fn": "map_to_curve_G2", "u": t, "class": "coordinate %d of %s u(t) vanishes" % (j, kind)})
        call(swu.optimized_swu_G2, CG.mk_el(cls[2], t))
        call(h2c.map_to_curve_G2, CG.mk_el(cls[2], t))
        call(h2c.map_to_curve_G2, CG.mk_el(cls[2], F2.neg(t)))
    rec.case("g2:u:candidate-residual-has-zero-coordinate", None, nontrivial=False)
    # ------------------------------------------------------------ full hashes
    msgs = msg_pool(rng, big=not quick)
    dsts = [b"", b"\x00", b"QUUX-V01-CS02-with-BLS12381G2_XMD:SHA-256_SSWU_RO_", b"BLS_SIG_BLS12381G2_XMD:SHA-256_SSWU_RO_POP_", rng.randbytes(255), rng.randbytes(254)]
    n_hash = 10 if quick else 200
    for g in (1, 2):
        fn = getattr(h2c, "hash_to_G%d" % g)
        for j in range(n_hash):
            hname = H2C_HASHES[(j + rec.shard) % len(H2C_HASHES)] if j % 2 else "sha256"
            msg = rng.choice(msgs) if j % 3 else rng.randbytes(rng.randrange(0, 200))
            dst = dsts[(j + rec.shard) % len(dsts)] if j % 4 else rng.randbytes(rng.randrange(0, 256))
            trivial = msg in RFC_MSGS and dst in RFC_DSTS and hname == "sha256"
            rec.case("g%d:hash" % g, ("hash", g, msg, dst, hname), nontrivial=not trivial,
                     sample={"fn": "hash_to_G%d" % g, "msg_len": len(msg), "dst_len": len(dst), "hash": hname})
            rec.case("hash:H=" + hname, None, nontrivial=False)
            if len(dst) == 255:
                rec.case("hash:dst=255", None, nontrivial=False)
            if len(dst) == 0:
                rec.case("hash:dst=0", None, nontrivial=False)
            call(fn, msg, dst, HASHES[hname])
        # pairs of RELATED messages under one tag: a long message and its digest, a message and its truncation / its 0x00-extension
        for j in range(2 if quick else 12):
            hname = H2C_HASHES[(j + rec.shard) % len(H2C_HASHES)]
            H_ = HASHES[hname]
            m1 = rng.randbytes(rng.choice([257, 300, 1000, 65, 129]))
            dst = rng.choice(dsts)
            for m_ in (m1, H_(m1).digest(), H_(m1).hexdigest().encode(), m1[:32], m1 + b"\x00", HASHES["sha256"](m1).digest()):
                rec.case("hash:related-messages", ("hashrel", g, m_, dst, hname), sample={"fn": "hash_to_G%d" % g, "relation": "digest / prefix / extension of the previous message", "hash": hname} if j == 0 else None)
                call(fn, m_, dst, H_)
        # over-long tag must be refused
        rec.case("hash:dst=256", ("hash", g, b"x", 256))
        call(fn, b"x", rng.randbytes(256), HASHES["sha256"])
        # RFC vector shape (trivial by the rule, still observed)
        if rec.shard == g:
            for m in sorted(RFC_MSGS):
                d = b"QUUX-V01-CS02-with-BLS12381G%d_XMD:SHA-256_SSWU_RO_" % g
                rec.case("g%d:hash" % g, ("hash", g, m, d, "sha256"), nontrivial=False)
                call(fn, m, d, HASHES["sha256"])


def replay(rec, case):
    import_all()
    hmon.install()
    h2c, swu = _lib()
    cls = CG.field_classes(MK)
    fn = case["fn"]
    if fn.startswith("hash_to_G"):
        call(getattr(h2c, fn), case["msg"], case["dst"], HASHES.get(case["hash"].replace("openssl_", ""), HASHES["sha256"]))
    elif fn.startswith("map_to_curve") or fn.startswith("optimized_swu"):
        u = tuple(case["u"])
        mod = h2c if fn.startswith("map") else swu
        call(getattr(mod, fn), CG.mk_el(cls[len(u)], u))
    elif fn.startswith("iso_map"):
        g = len(case["xyz"][0])
        call(getattr(swu, fn), *[CG.mk_el(cls[g], tuple(v)) for v in case["xyz"]])
    elif fn.startswith("clear_cofactor"):
        g = len(case["p"][0])
        call(getattr(h2c, fn), tuple(CG.mk_el(cls[g], tuple(v)) for v in case["p"]))
    elif fn.startswith("hash_to_field"):
        call(getattr(h2c, fn), case["msg"], case["count"], case["dst"], HASHES.get(case["hash"].replace("openssl_", ""), HASHES["sha256"]))
