"""C14 — optimized field classes compute the same values as the reference field classes."""
from __future__ import annotations

import itertools

from ..model.gf import Fld, find_irreducible, is_prime
from ..monitors import field as fmon
from ..monitors.conv import ival
from ..monitors.install import import_all
from . import fieldgen as G
from .common import call

SELFTESTS = ["fields"]
DECIDING = ["B-diff", "B-sgn0"]
RULE = ("cases = random straight-line programs (DAGs, depth <= 8, shared sub-terms) over + - * / ** neg, int mixing and comparisons, each "
        "evaluated three ways: in the reference class, in the optimized class and in pv.model.gf; canonical results (or the kind of "
        "exception) must agree node by node; sgn0 of optimized FQ / FQ2 / FQ12 / ad-hoc extension elements is compared with RFC 9380 4.1 "
        "(generic m) including after negation and for FQ-object coefficients; small fields: every depth-1 program over the whole operand "
        "space; distinct = distinct (field, program, leaves); non-trivial = programs with >= 2 operations or leaves other than 2,7,9,11,[1,2],[1..12]"
        " Programs over primes just below a power of two (31 .. 2^255-19, secp256k1 prime) with leaves at the top of the coefficient range.")
ASSUMPTIONS = ["FQP x FQ products are reference-only and excluded; leaves are homogeneous coefficient sequences"]

OPS2 = ["add", "sub", "mul", "div"]


def shards(tier):
    return 16


def required_classes(tier):
    return ["prog:near-power-of-two-prime", "prog:derived-class", "prog:deg1", "prog:deg2", "prog:deg12", "prog:adhoc", "W4:depth1", "sgn0:FQ", "sgn0:FQ2", "sgn0:FQ12", "sgn0:zero-first-coeff", "sgn0:after-neg",
            "leaf:FQ-object-coeffs", "cmp"]


def gen_program(rng, k, n_leaves, max_nodes, max_exp_bits, p):
    """list of nodes; node = (op, args...) referring to earlier node indices."""
    prog = [("leaf", i) for i in range(n_leaves)]
    depth = [0] * n_leaves
    n_ops = rng.randrange(1, max_nodes + 1)
    for _ in range(n_ops):
        cand = [i for i, d in enumerate(depth) if d < 8]
        op = rng.choice(["add", "sub", "mul", "mul", "div", "neg", "pow", "imul", "rimul", "idiv"] + (["iadd", "riadd", "isub", "risub", "ridiv"] if k == 1 else []))
        a = rng.choice(cand)
        if op in OPS2:
            b = rng.choice(cand)
            prog.append((op, a, b))
            depth.append(max(depth[a], depth[b]) + 1)
        elif op == "neg":
            prog.append((op, a))
            depth.append(depth[a] + 1)
        elif op == "pow":
            e = rng.choice([0, 1, 2, 3, rng.getrandbits(rng.randrange(1, max_exp_bits + 1))])
            prog.append((op, a, e))
            depth.append(depth[a] + 1)
        else:
            n = rng.choice([0, 1, -1, 2, p, p + 1, -p - 3, rng.randrange(p), -rng.randrange(p), rng.getrandbits(600)])
            prog.append((op, a, n))
            depth.append(depth[a] + 1)
    # final comparison of two nodes
    prog.append(("eq", rng.randrange(len(prog)), rng.randrange(len(prog))))
    return prog


def eval_lib(prog, leaves):
    """evaluate in a library class; returns list of ('ok', value) / ('exc', type name)"""
    vals = []
    for node in prog:
        op = node[0]
        try:
            if op == "leaf":
                r = leaves[node[1]]
            else:
                a = vals[node[1]]
                if a[0] != "ok":
                    raise _Propagate()
                a = a[1]
                if op in OPS2 or op == "eq":
                    b = vals[node[2]]
                    if b[0] != "ok":
                        raise _Propagate()
                    b = b[1]
                    r = a + b if op == "add" else a - b if op == "sub" else a * b if op == "mul" else a / b if op == "div" else (a == b)
                elif op == "neg":
                    r = -a
                elif op == "pow":
                    r = a ** node[2]
                else:
                    n = node[2]
                    r = {"imul": lambda: a * n, "rimul": lambda: n * a, "idiv": lambda: a / n, "iadd": lambda: a + n, "riadd": lambda: n + a,
                         "isub": lambda: a - n, "risub": lambda: n - a, "ridiv": lambda: n / a}[op]()
            vals.append(("ok", r))
        except _Propagate:
            vals.append(("exc", "propagated"))
        except Exception as e:
            vals.append(("exc", type(e).__name__))
    return vals


class _Propagate(Exception):
    pass


def eval_model(prog, leaves, F):
    vals = []
    for node in prog:
        op = node[0]
        if op == "leaf":
            vals.append(leaves[node[1]])
            continue
        a = vals[node[1]]
        if op in OPS2:
            b = vals[node[2]]
            vals.append(F.add(a, b) if op == "add" else F.sub(a, b) if op == "sub" else F.mul(a, b) if op == "mul" else F.div(a, b))
        elif op == "eq":
            vals.append(a == vals[node[2]])
        elif op == "neg":
            vals.append(F.neg(a))
        elif op == "pow":
            vals.append(F.pow(a, node[2]))
        else:
            n = F.const(node[2])
            vals.append({"imul": lambda: F.mul(a, n), "rimul": lambda: F.mul(n, a), "idiv": lambda: F.div(a, n), "iadd": lambda: F.add(a, n),
                         "riadd": lambda: F.add(n, a), "isub": lambda: F.sub(a, n), "risub": lambda: F.sub(n, a), "ridiv": lambda: F.div(n, a)}[op]())
    return vals


def canon(v, p):
    if isinstance(v, bool):
        return v
    if hasattr(v, "coeffs"):
        return tuple(ival(c) for c in v.coeffs)
    return (v.n,)


def run_program(rec, tag, rcls, ocls, F, prog, leaf_vals, leaf_mode="int"):
    k = F.k

    def mk(cls, v, impl):
        if k == 1:
            return cls(v[0])
        if leaf_mode == "fq":
            import py_ecc.fields.field_elements as ref
            import py_ecc.fields.optimized_field_elements as opt
            base = (ref if impl == "ref" else opt).FQ
            fq = type("LeafFQ", (base,), {"field_modulus": F.p})
            return cls([fq(c) for c in v])
        return cls(list(v))

    rv = eval_lib(prog, [mk(rcls, v, "ref") for v in leaf_vals])
    ov = eval_lib(prog, [mk(ocls, v, "opt") for v in leaf_vals])
    mv = eval_model(prog, [tuple(v) for v in leaf_vals], F)
    case = {"fn": "program", "p": F.p, "mc": list(F.mc), "prog": [list(n) for n in prog], "leaves": [list(v) for v in leaf_vals], "leaf_mode": leaf_mode}
    for idx, (r, o, m) in enumerate(zip(rv, ov, mv)):
        if r[0] == "exc" and r[1] == "propagated" and o[0] == "exc":
            continue
        node = prog[idx]
        if r[0] == "ok" and o[0] == "ok":
            cr, co = canon(r[1], F.p), canon(o[1], F.p)
            good = cr == co == m
            rec.check("B-diff", good, tag, "node %d %r: reference=%s optimized=%s model=%s" % (idx, node[0], _short(cr), _short(co), _short(m)),
                      case=case, facts={"kind": "value", "op": node[0], "deg": k}, expected=m, observed={"ref": cr, "opt": co})
            if not good:
                break
        else:
            rec.check("B-diff", False, tag, "node %d %r: reference -> %s, optimized -> %s (model defines a value)" % (idx, node, r if r[0] == "exc" else "value", o if o[0] == "exc" else "value"),
                      case=case, facts={"kind": "exception", "op": node[0], "deg": k, "ref": r[1] if r[0] == "exc" else "value", "opt": o[1] if o[0] == "exc" else "value"})
            break


def _short(v):
    s = repr(v)
    return s if len(s) < 80 else s[:77] + "..."


def sgn0_checks(rec, ocls, F, rng, tag, n):
    k = F.k
    p = F.p
    els = G.elements(F, rng, n)
    if k > 1:
        els += [(0,) * (k - 1) + (1,), (0,) * (k - 1) + (2,), (0, 1) + (0,) * (k - 2), (0, 2) + (0,) * (k - 2), (2, 1) + (0,) * (k - 2), (1, 2) + (0,) * (k - 2),
                (0,) + (p - 1,) * (k - 1), (0,) + (p - 2,) * (k - 1)]
    else:
        els += [(0,), (1,), (2,), (p - 1,), (p - 2,), ((p - 1) // 2,), ((p + 1) // 2,)]
    for v in els:
        for mode in ("int", "fq") if k > 1 else ("int",):
            if mode == "fq":
                import py_ecc.fields.optimized_field_elements as opt
                fq = type("LeafFQ", (opt.FQ,), {"field_modulus": p})
                x = ocls([fq(c) for c in v])
                rec.case("leaf:FQ-object-coeffs", None, nontrivial=False)
            else:
                x = G.make(ocls, v)
            exp = F.sgn0_rfc(v)
            st, got = call(lambda: x.sgn0)
            rec.case(tag, ("sgn0", F.p, F.mc, v, mode), sample={"class": ocls.__name__, "x": v, "sgn0": got if st == "ok" else repr(got)})
            if k > 1 and v[0] == 0:
                rec.case("sgn0:zero-first-coeff", None, nontrivial=False)
            case = {"fn": "sgn0", "p": p, "mc": list(F.mc), "x": list(v), "mode": mode}
            rec.check("B-sgn0", st == "ok" and int(got) == exp and F.sgn0(v) == exp, tag, "sgn0 differs from RFC 9380 4.1", case=case,
                      facts={"kind": "sgn0", "deg": k}, expected=exp, observed=got if st == "ok" else repr(got))
            # cached value must stay coherent; the negation is a new element with its own sign
            st2, again = call(lambda: x.sgn0)
            nx = -x
            st3, gneg = call(lambda: nx.sgn0)
            rec.case("sgn0:after-neg", None, nontrivial=False)
            rec.check("B-sgn0", st2 == "ok" and again == got and st3 == "ok" and int(gneg) == F.sgn0_rfc(F.neg(v)), tag,
                      "sgn0 cache incoherent or sgn0(-x) wrong", case=case, facts={"kind": "sgn0-neg", "deg": k})
            # elements DERIVED from x after x's sign was read are new elements with their own sign (a memo must not travel)
            w = els[(els.index(v) + 3) % len(els)]
            y = G.make(ocls, w)
            one = G.make(ocls, (1,) + (0,) * (k - 1))
            derived = [("x+y", lambda: x + y, F.add(v, w)), ("x-y", lambda: x - y, F.sub(v, w)), ("x*y", lambda: x * y, F.mul(v, w)),
                       ("x*3", lambda: x * 3, F.smul(v, 3)), ("x+1", lambda: x + one, F.add(v, F.one)), ("y-x", lambda: y - x, F.sub(w, v))]
            if k > 1:
                derived.append(("x*(p-1)", lambda: x * (p - 1), F.smul(v, p - 1)))
            for name, mk, ev in derived:
                st4, d = call(mk)
                st5, gs = call(lambda: d.sgn0) if st4 == "ok" else ("exc", d)
                rec.case("sgn0:derived-after-read", None, nontrivial=False)
                rec.check("B-sgn0", st5 == "ok" and int(gs) == F.sgn0_rfc(ev), tag, "sgn0(%s) wrong after sgn0(x) had been read" % name,
                          case=dict(case, derived=name, y=list(w)), facts={"kind": "sgn0-derived", "deg": k, "op": name}, expected=F.sgn0_rfc(ev), observed=gs if st5 == "ok" else repr(gs))


def run(rec):
    import_all()
    fmon.install(ctor=True, ops=False, every_ctor=7, inner_ctor=7)
    rng = rec.rng
    quick = rec.tier == "quick"
    classes = G.concrete_classes()
    n_prog = 3000 if quick else 100000
    i = 0
    fams = []
    for curve in G.CURVES:
        for d in (1, 2, 12):
            fams.append(("prog:deg%d" % d, classes[("ref", curve, d)][0], classes[("opt", curve, d)][0], classes[("ref", curve, d)][1]))
    weights = {1: 5, 2: 5, 12: 2}
    fam_cycle = [f for f in fams for _ in range(weights[f[3].k])]
    for j in range(n_prog):
        i += 1
        if not rec.mine(i):
            continue
        tag, rcls, ocls, F = fam_cycle[j % len(fam_cycle)]
        k = F.k
        n_leaves = rng.randrange(1, 4)
        pool = G.elements(F, rng, 3)
        leaves = [rng.choice(pool) for _ in range(n_leaves)]
        prog = gen_program(rng, k, n_leaves, 10 if k < 12 else 5, {1: 700, 2: 400, 12: 24}[k] if j % 10 else {1: 3000, 2: 1200, 12: 120}[k], F.p)
        mode = "fq" if (k > 1 and j % 7 == 3) else "int"
        if mode == "fq":
            rec.case("leaf:FQ-object-coeffs", None, nontrivial=False)
        rec.case(tag, ("prog", F.p, k, tuple(prog), tuple(leaves), mode), sample={"field": "GF(p^%d), p %d bits" % (k, F.p.bit_length()), "program": prog, "leaves": leaves})
        rec.case("cmp", None, nontrivial=False)
        run_program(rec, tag, rcls, ocls, F, prog, leaves, mode)
    # ad-hoc primes / moduli
    for j in range(300 if quick else 6000):
        i += 1
        if not rec.mine(i):
            continue
        bits = rng.choice([3, 5, 8, 31, 61, 127, 255])
        p = next(n for n in range((1 << bits) - rng.randrange(1, 64) * 2 + 1, 1 << (bits + 1), 2) if is_prime(n))
        d = rng.choice([1, 2, 2, 12]) if bits <= 31 else rng.choice([1, 2])
        mc = None if d == 1 else find_irreducible(p, d, rng, sparse=(d == 12 and rng.random() < 0.5))
        rcls, F = G.adhoc_class("ref", p, mc)
        ocls, _ = G.adhoc_class("opt", p, mc)
        n_leaves = rng.randrange(1, 4)
        pool = G.elements(F, rng, 3)
        leaves = [rng.choice(pool) for _ in range(n_leaves)]
        prog = gen_program(rng, d, n_leaves, 8 if d < 12 else 4, 200 if d < 12 else 16, p)
        rec.case("prog:adhoc", ("prog", p, mc, tuple(prog), tuple(leaves)), sample={"field": "GF(%d^%d) mc=%r" % (p, d, mc), "program": prog, "leaves": leaves})
        run_program(rec, "prog:adhoc", rcls, ocls, F, prog, leaves)
        if j % 5 == 0 and d > 1:
            sgn0_checks(rec, ocls, F, rng, "sgn0:adhoc", 2)
    # classes DERIVED from a concrete class that was used first, overriding only the modulus coefficients (every shard: cheap)
    from ..model.gf import is_irreducible
    import py_ecc.fields as pf
    for base_r, base_o in ((pf.bn128_FQ2, pf.optimized_bn128_FQ2), (pf.bls12_381_FQ2, pf.optimized_bls12_381_FQ2), (G.adhoc_class("ref", 7, (1, 0))[0], G.adhoc_class("opt", 7, (1, 0))[0])):
        p = base_r.field_modulus
        call(lambda: base_r([1, 2]) * base_r([3, 4]))
        call(lambda: base_o([1, 2]) * base_o([3, 4]))
        for mc in ((2, 0), (3, 0), (5, 0), (1, 1), (2, 1)):
            if not is_irreducible(mc, p) or mc == tuple(int(getattr(c, "n", c)) for c in base_r.FQ2_MODULUS_COEFFS):
                continue
            rcls, F = G.derived_class(base_r, mc=mc)
            ocls, _ = G.derived_class(base_o, mc=mc)
            for rep in range(6 if quick else 60):
                pool = G.elements(F, rng, 3)
                leaves = [rng.choice(pool) for _ in range(2)]
                prog = gen_program(rng, 2, 2, 6, 60, p)
                rec.case("prog:derived-class", ("progd", p, mc, tuple(prog), tuple(leaves)), sample={"field": "derived from %s with modulus %r" % (base_o.__name__, mc), "program": prog})
                run_program(rec, "prog:derived-class", rcls, ocls, F, prog, leaves)
            break
    # extension fields over primes just below a power of two, leaves with all-maximal / top-range coefficients
    m12 = __import__("random").Random(777)
    np2 = [31, 61, 127, 8191, (1 << 61) - 1, (1 << 255) - 19, 2 ** 256 - 2 ** 32 - 977]
    for p in (np2 if not quick else [np2[(rec.shard + k) % len(np2)] for k in range(2)]):
        for d in (12, 2):
            mc = find_irreducible(p, d, m12, sparse=True)
            rcls, F = G.adhoc_class("ref", p, mc, tag="_np2")
            ocls, _ = G.adhoc_class("opt", p, mc, tag="_np2")
            tops = [tuple(p - 1 for _ in range(d)), tuple(p - 1 - rng.randrange(0, max(2, p // 16)) for _ in range(d)), tuple(p - 2 for _ in range(d))]
            for rep in range(3 if quick else 20):
                leaves = [rng.choice(tops), rng.choice(tops)]
                prog = gen_program(rng, d, 2, 5, 12, p)
                rec.case("prog:near-power-of-two-prime", ("prognp2", p, mc, tuple(prog), tuple(leaves)), sample={"field": "GF(%d^%d)" % (p, d) if p < 10 ** 6 else "GF(p^%d), p just below 2^%d" % (d, p.bit_length()), "leaves": "top of the coefficient range"})
                run_program(rec, "prog:near-power-of-two-prime", rcls, ocls, F, [("leaf", 0), ("leaf", 1), ("mul", 0, 1), ("mul", 2, 0), ("sub", 3, 1)], leaves)
                run_program(rec, "prog:near-power-of-two-prime", rcls, ocls, F, prog, leaves)
    # W4: all depth-1 programs on small fields
    small = [(p, None) for p in (2, 3, 5, 7)] + [(p, mc) for p in (3, 5) for mc in G.irreducible_quadratics(p)[: (2 if quick else 99)]]
    for p, mc in small:
        i += 1
        if not rec.mine(i):
            continue
        rcls, F = G.adhoc_class("ref", p, mc)
        ocls, _ = G.adhoc_class("opt", p, mc)
        els = [tuple(e) for e in F.all_elements()]
        n = 0
        for a, b in itertools.product(els, repeat=2):
            for op in OPS2:
                run_program(rec, "W4:depth1", rcls, ocls, F, [("leaf", 0), ("leaf", 1), (op, 0, 1), ("eq", 0, 1)], [a, b])
                n += 1
        for a in els:
            for e in range(0, F.q + 2):
                run_program(rec, "W4:depth1", rcls, ocls, F, [("leaf", 0), ("pow", 0, e), ("neg", 0), ("eq", 1, 0)], [a])
                n += 1
        rec.classes["W4:depth1"] += n
        rec.count_distinct(n)
        rec.exhaustive_space("all depth-1 programs (+ - * / on every ordered pair, x**e for e in 0..q+1, neg) over GF(%d%s)" % (p, "" if mc is None else "^2, mc=%r" % (mc,)), n)
    # sgn0
    for curve in G.CURVES:
        for d, tag in ((1, "sgn0:FQ"), (2, "sgn0:FQ2"), (12, "sgn0:FQ12")):
            i += 1
            if not rec.mine(i):
                continue
            ocls, F = classes[("opt", curve, d)]
            sgn0_checks(rec, ocls, F, rng, tag, 20 if quick else 400)


def replay(rec, case):
    import_all()
    p, mc = case["p"], tuple(case["mc"]) or None
    rcls, F = G.adhoc_class("ref", p, mc)
    ocls, _ = G.adhoc_class("opt", p, mc)
    if case["fn"] == "program":
        run_program(rec, "replay", rcls, ocls, F, [tuple(n) for n in case["prog"]], [tuple(v) for v in case["leaves"]], case.get("leaf_mode", "int"))
    elif case["fn"] == "sgn0":
        sgn0_checks(rec, ocls, F, rec.rng, "replay", 0)
