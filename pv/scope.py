"""Which monitors decide which property.  Workloads with many monitors switched on (scenarios W2,
the repository's own tests W3) are attached to several checks; a report from a monitor that serves
another property is printed as a NOTE and does not decide the verdict of this one."""

SCOPES = {
    "C01": ["B-c01", "M-bls.reject"],
    "C02": ["M-bls.verify"],
    "C03": ["M-bls.aggregate", "M-bls.aggverify", "M-bls.fastaggverify", "B-c03"],
    "C04": ["M-bls.total", "M-bls.keyvalidate", "M-bls.unsafe-input", "M-pair-arg"],
    "C05": ["B-pair", "M-pairing"],
    "C06": ["B-ecdsa", "M-secp.nonce"],
    "C07": ["M-curve", "B-curve"],
    "C08": ["M-field", "B-field-law"],
    "C09": ["M-bls.sktopk", "M-bls.sign", "M-bls.aggregate", "B-c09"],
    "C10": ["M-h2c"],
    "C11": ["M-zcash"],
    "C12": ["B-c12", "M-pairing"],
    "C13": ["M-curve", "M-line", "M-secp.j", "B-rep-independence"],
    "C14": ["B-diff", "B-sgn0", "M-field"],
    "C15": ["M-h2c.xmd", "M-h2c.h2f"],
    "C16": ["M-hkdf", "B-keygen", "M-bls.keygen"],
    "C17": ["M-subgroup", "M-h2c.clear", "M-h2c.subgroup", "B-constants"],
    "C18": ["M-secp", "B-secp"],
    "C19": ["B-recover", "M-secp"],
    "C20": ["M-pure", "H-"],
}

# monitor families to switch on when a scenario / the repository tests are attached to a property
FAMILIES = {
    "C01": ["bls"], "C02": ["bls"], "C03": ["bls"], "C04": ["bls"], "C09": ["bls"],
    "C05": [], "C12": [],
    "C06": ["secp"], "C18": ["secp"], "C19": ["secp"],
    "C07": ["curve"], "C13": ["curve", "secp-j"],
    "C08": ["field"], "C14": ["field"],
    "C10": ["h2c"], "C15": ["h2c"], "C16": ["h2c", "bls"], "C17": ["h2c", "zcash"],
    "C11": ["zcash"],
    "C20": [],
}
