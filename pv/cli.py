"""Entry point: python -m pv.cli <ID> [--tier quick|thorough] [--replay path]

Exit codes: 0 held (possibly with KNOWN-FINDING lines), 1 violated
(``VIOLATION property=<id> replay=<path>``), 2 inconclusive.
"""
from __future__ import annotations

import argparse
import collections
import concurrent.futures
import hashlib
import importlib
import json
import os
import shutil
import subprocess
import sys
import tempfile
import time

from . import core, findings

PROPS = ["C%02d" % i for i in range(1, 21)]


def load_prop(pid):
    return importlib.import_module("pv.props." + pid.lower())


def run_selftests(names, seed, thorough):
    from .model import selftest
    return selftest.run(seed=seed, thorough=thorough, only=names)


def _run_shard(pid, tier, seed, shard, nshards, outdir, timeout, env_fn=None):
    out = os.path.join(outdir, "shard%d.json" % shard)
    cmd = [sys.executable, "-m", "pv.shardmain", pid, tier, str(seed), str(shard), str(nshards), out]
    t0 = time.time()
    env = dict(os.environ)
    if env_fn is not None:
        env.update(env_fn(shard))
    try:
        p = subprocess.run(cmd, timeout=timeout, capture_output=True, text=True, env=env)
    except subprocess.TimeoutExpired as e:
        r = {"shard": shard, "fatal": "watchdog", "detail": "timeout after %ds" % timeout,
             "stderr": (e.stderr or b"")[-2000:] if isinstance(e.stderr, (bytes, str)) else ""}
        r["partial"] = _partial(out)
        return r
    if p.returncode != 0 or not os.path.exists(out):
        last = [ln for ln in (p.stderr or "").strip().splitlines() if ln.strip()][-1:] or [""]
        return {"shard": shard, "fatal": "crash", "detail": "exit %d %s" % (p.returncode, last[0][:160]),
                "stderr": p.stderr[-3000:], "stdout": p.stdout[-1000:], "partial": _partial(out)}
    rep = json.load(open(out))
    rep["proc_wall_s"] = round(time.time() - t0, 2)
    return rep


def _partial(out):
    """Violations a shard had recorded before it hung or crashed."""
    try:
        return json.load(open(out + ".partial"))
    except Exception:
        return None


def merge(reports):
    m = {
        "evals": 0, "monitors": collections.Counter(), "classes": collections.Counter(),
        "paths": collections.Counter(), "events": collections.Counter(), "distinct": 0,
        "samples": [], "violations": [], "violation_count": 0, "vkeys": collections.Counter(), "exhaustive": [],
        "notes": {}, "unavailable": [], "inconclusive": [], "fatal": [], "shard_wall_s": [], "lines": {}, "waived": {},
    }
    for r in reports:
        if "fatal" in r:
            m["fatal"].append(r)
            pr = r.get("partial")
            if pr:                       # keep what the shard had found before it died; coverage counters of a partial report are not used
                m["violations"].extend(pr.get("violations", []))
                m["violation_count"] += pr.get("violation_count", 0)
                m["vkeys"].update(pr.get("vkeys", {}))
                m["notes"].setdefault("partial_reports_from_dead_shards", 0)
                m["notes"]["partial_reports_from_dead_shards"] += 1
            continue
        m["evals"] += r["evals"]
        for k in ("monitors", "classes", "paths", "events"):
            m[k].update(r[k])
        m["distinct"] += r["distinct"]
        for s in r["samples"]:
            if len(m["samples"]) < 16:
                m["samples"].append(s)
        m["violations"].extend(r["violations"])
        m["violation_count"] += r["violation_count"]
        m["vkeys"].update(r["vkeys"])
        m["exhaustive"].extend(r["exhaustive"])
        for k, v in r["notes"].items():
            m["notes"].setdefault(k, v)
        for u in r["unavailable"]:
            if u not in m["unavailable"]:
                m["unavailable"].append(u)
        m["inconclusive"].extend(r["inconclusive"])
        m["shard_wall_s"].append(r["wall_s"])
        m["waived"].update(r.get("waived") or {})
        for fn, d in (r.get("lines") or {}).items():
            t = m["lines"].setdefault(fn, {"exec": set(), "all": set(), "file": d["file"]})
            t["exec"].update(d["exec"])
            t["all"].update(d["all"])
    return m


def write_evidence(pid, tier, seed, mod, m, wall, verdict, known_hit, extra_assumptions=()):
    from .monitors import observe
    line_cov, line_missing = observe.summarize(m.get("lines") or {})
    evdir = os.environ.get("PV_EVIDENCE_DIR") or os.path.join(core.VERIF, "evidence")
    if os.path.abspath(os.environ.get("PV_REPO", "/repo")) != "/repo" and not os.environ.get("PV_EVIDENCE_DIR"):
        evdir = os.path.join(core.VERIF, ".work", "evidence_scratch")    # runs against scratch trees are not evidence for /repo
    os.makedirs(evdir, exist_ok=True)
    cov = {
        "evaluations": m["evals"],
        "distinct_nontrivial": m["distinct"],
        "rule": mod.RULE,
        "samples": m["samples"],
        "verdict": verdict,
        "monitor_evaluations": dict(sorted(m["monitors"].items())),
        "input_classes": dict(sorted(m["classes"].items())),
        "control_paths_observed": dict(sorted(m["paths"].items())),
        "internal_events_observed": dict(sorted(m["events"].items())),
        "exhaustive_subspaces": m["exhaustive"],
        "exhaustive": False,
        "known_findings_hit": known_hit,
        "observer_unavailable": m["unavailable"],
        "waived_input_classes": {k: v for k, v in m["waived"].items() if m["classes"].get(k, 0) == 0},
        "anchored_functions_line_coverage": line_cov,
        "anchored_lines_never_executed": line_missing,
        "inconclusive_reasons": m["inconclusive"] + [f.get("fatal", "") + ":" + f.get("detail", "") for f in m["fatal"]],
        "notes": m["notes"],
        "shards": len(m["shard_wall_s"]),
        "shard_wall_s": m["shard_wall_s"],
    }
    ev = {
        "property_id": pid, "tier": tier, "seed": seed, "level": "exploration",
        "coverage": cov,
        "assumptions": list(getattr(mod, "ASSUMPTIONS", [])) + list(extra_assumptions) + [
            "CPython integer arithmetic, pow() and hashlib are correct",
            "pv.model (independent reference models) transcribes the specifications correctly; its self-test passed at the start of this run",
        ],
        "wall_s": round(wall, 2),
        "violations": m["violation_count"] - sum(k["count"] for k in known_hit),
    }
    path = os.path.join(evdir, pid + ".json")
    tmp = path + ".tmp"
    json.dump(ev, open(tmp, "w"), indent=1, sort_keys=False)
    os.replace(tmp, path)
    return path


def write_replay(pid, v):
    d = os.path.join(core.VERIF, "replays", pid)
    if os.path.abspath(os.environ.get("PV_REPO", "/repo")) != "/repo":
        d = os.path.join(core.VERIF, ".work", "replays_scratch", pid)
    os.makedirs(d, exist_ok=True)
    blob = json.dumps(v, sort_keys=True)
    h = hashlib.sha256(blob.encode()).hexdigest()[:16]
    path = os.path.join(d, h + ".json")
    open(path, "w").write(json.dumps(v, indent=1))
    return path


def main(argv=None):
    ap = argparse.ArgumentParser()
    ap.add_argument("prop")
    ap.add_argument("--tier", default=os.environ.get("VERIF_TIER", "quick"), choices=["quick", "thorough"])
    ap.add_argument("--replay")
    ap.add_argument("--jobs", type=int, default=int(os.environ.get("VERIF_JOBS", "16")))
    ap.add_argument("--shard", type=int, default=None, help="debug: run one shard in-process")
    args = ap.parse_args(argv)
    pid = args.prop.upper()
    if pid not in PROPS:
        print("unknown property", pid)
        return 2
    seed = int(os.environ.get("VERIF_SEED", "0") or 0)
    tier = args.tier
    t0 = time.time()

    try:
        import py_ecc
        repo = os.environ.get("PV_REPO", "/repo")
        if not os.path.abspath(py_ecc.__file__).startswith(os.path.abspath(repo) + os.sep):
            print("INCONCLUSIVE property=%s reason=py_ecc imported from %s, not %s" % (pid, py_ecc.__file__, repo))
            return 2
        mod = load_prop(pid)
    except Exception as e:  # import failure is an oracle/harness problem or a broken tree
        import traceback
        traceback.print_exc()
        print("INCONCLUSIVE property=%s reason=import failed: %r" % (pid, e))
        return 2

    if args.replay:
        from . import shardmain
        return shardmain.replay(pid, args.replay)

    try:
        ran = run_selftests(mod.SELFTESTS, seed, tier == "thorough")
    except Exception as e:
        print("INCONCLUSIVE property=%s reason=model self-test failed: %r" % (pid, e))
        return 2

    nshards = mod.shards(tier)
    timeout = mod.TIMEOUT[tier] if hasattr(mod, "TIMEOUT") else (2400 if tier == "quick" else 6 * 3600)
    # scratch for the shard reports: inside this checkout (git-ignored), not under /tmp where other clean-ups reach it
    scratch_root = os.path.join(os.path.dirname(os.path.dirname(os.path.abspath(__file__))), ".work", "shards")
    os.makedirs(scratch_root, exist_ok=True)
    outdir = tempfile.mkdtemp(prefix="pv_%s_" % pid, dir=scratch_root)
    try:
        if args.shard is not None:
            reports = [_run_shard(pid, tier, seed, args.shard, nshards, outdir, timeout, getattr(mod, "SHARD_ENV", None))]
        else:
            with concurrent.futures.ThreadPoolExecutor(max_workers=max(1, args.jobs)) as ex:
                futs = [ex.submit(_run_shard, pid, tier, seed, s, nshards, outdir, timeout, getattr(mod, "SHARD_ENV", None)) for s in range(nshards)]
                reports = [f.result() for f in futs]
    finally:
        shutil.rmtree(outdir, ignore_errors=True)

    if hasattr(mod, "offline_check") and args.shard is None:
        # offline checker over the recorded event logs of all shards (histories)
        off = core.Rec(pid, tier, seed, -1, nshards)
        try:
            mod.offline_check(reports, off)
        except Exception as e:
            import traceback
            off.inconclusive.append("offline checker failed: %r %s" % (e, traceback.format_exc()[-600:]))
        reports = reports + [off.report()]
    for r in reports:
        r.pop("blob", None)
    m = merge(reports)
    m["notes"]["model_selftests_passed"] = ran

    # violations reported by monitors outside this property's scope are kept as information only
    from .scope import SCOPES
    scope = getattr(mod, "SCOPE", None) or SCOPES.get(pid)
    out_of_scope = collections.Counter()
    if scope is not None:
        for key in list(m["vkeys"]):
            mon = json.loads(key)[0]
            if not mon.startswith("B-driver") and not any(mon == s or mon.startswith(s) for s in scope):
                n = m["vkeys"].pop(key)
                out_of_scope[mon] += n
                m["violation_count"] -= n
        m["violations"] = [v for v in m["violations"] if v["key"] in m["vkeys"]]
    m["notes"]["out_of_scope_monitor_reports"] = dict(out_of_scope)

    # classify violations
    kf = findings.load()
    known_hit, unknown = findings.classify(pid, m["violations"], m["vkeys"], kf)

    inconclusive = list(m["inconclusive"])
    for f in m["fatal"]:
        inconclusive.append("shard %s %s: %s" % (f.get("shard"), f.get("fatal"), f.get("detail")))
        if f.get("stderr"):
            sys.stderr.write("---- shard %s stderr ----\n%s\n" % (f.get("shard"), f.get("stderr")))
    if args.shard is None:
        for mon in mod.DECIDING:
            if m["monitors"].get(mon, 0) == 0:
                inconclusive.append("deciding monitor %s was never evaluated" % mon)
        for cls in mod.required_classes(tier):
            if m["classes"].get(cls, 0) == 0 and cls not in m["waived"]:
                inconclusive.append("promised input class %s is empty" % cls)

    if unknown:
        verdict = "violated"
    elif inconclusive:
        verdict = "inconclusive"
    else:
        verdict = "held"
    wall = time.time() - t0
    write_evidence(pid, tier, seed, mod, m, wall, verdict, known_hit)

    for mon, n in sorted(out_of_scope.items()):
        print("NOTE: %d report(s) from monitor %s, which does not decide %s (see the property that monitor serves)" % (n, mon, pid))
    for k in known_hit:
        print("KNOWN-FINDING: property=%s %s (observed %d times this run)" % (pid, k["line"], k["count"]))
    print("%s tier=%s seed=%d evaluations=%d distinct_nontrivial=%d shards=%d wall=%.1fs" % (
        pid, tier, seed, m["evals"], m["distinct"], nshards, wall))
    if verdict == "violated":
        seen = set()
        for v in unknown:
            key = (v["monitor"], v["class"])
            if key in seen:
                continue
            seen.add(key)
            path = write_replay(pid, v)
            print("  %s [%s] %s" % (v["monitor"], v["class"], v["what"][:300]))
            print("VIOLATION property=%s replay=%s" % (pid, path))
        return 1
    if verdict == "inconclusive":
        for r in inconclusive[:10]:
            print("INCONCLUSIVE property=%s reason=%s" % (pid, r))
        return 2
    print("HELD property=%s on everything explored" % pid)
    return 0


if __name__ == "__main__":
    sys.exit(main())
