"""Reading raw state of library objects into model values (never calls library code
beyond attribute access)."""
from __future__ import annotations


def ival(c):
    """int or FQ-like -> int (raw attribute read)."""
    if isinstance(c, int):
        return c
    return c.n


def el(x):
    """Field element object -> model tuple of ints (unreduced values are kept as is)."""
    if hasattr(x, "coeffs"):
        return tuple(ival(c) for c in x.coeffs)
    if isinstance(x, int):
        return (x,)
    return (x.n,)


def el_mod(x, p):
    return tuple(c % p for c in el(x))


def aff_from_proj(pt, F):
    """Optimized (x, y, z) -> model affine point (x/z, y/z) or None if z == 0."""
    x, y, z = (el_mod(c, F.p) for c in pt)
    if F.is_zero(z):
        return None
    zi = F.inv(z)
    return (F.mul(x, zi), F.mul(y, zi))


def aff_from_ref(pt, F):
    if pt is None:
        return None
    return (el_mod(pt[0], F.p), el_mod(pt[1], F.p))


def field_of(x, suite):
    """Which model field an element object lives in (by its degree)."""
    if hasattr(x, "coeffs"):
        return suite.F2 if len(x.coeffs) == 2 else suite.F12
    return suite.F1


def curve_of(x, suite):
    if hasattr(x, "coeffs"):
        return suite.E2 if len(x.coeffs) == 2 else suite.E12
    return suite.E1
