"""Reach observer: which source lines of the functions a property is anchored in were
actually executed by this run's workload (sys.monitoring LINE events, CPython >= 3.12).

Each line event is disabled after its first occurrence, so the cost is one callback per line
per code object.  The observer decides nothing; it produces evidence of reach (and lists the
lines no workload reached, i.e. the blind spots of this technique for this run)."""
from __future__ import annotations

import functools
import importlib
import json
import linecache
import os
import sys
import types

from .. import core

_EXEC = {}      # code object -> set(lines)
_CODES = {}     # code object -> "module:qualname"
_ON = [False]


def _anchored_modules(pid):
    path = os.path.join(core.VERIF, "properties.jsonl")
    mods = []
    try:
        for line in open(path):
            d = json.loads(line)
            if d["id"] == pid:
                for f in d.get("anchors", {}).get("files", []):
                    if f.endswith(".py"):
                        m = f[:-3].replace("/", ".")
                        if m.endswith(".__init__"):
                            m = m[: -len(".__init__")]
                        mods.append(m)
    except Exception:
        pass
    return mods


def _unwrap(f):
    seen = 0
    while seen < 10:
        seen += 1
        if isinstance(f, (staticmethod, classmethod)):
            f = f.__func__
        elif isinstance(f, property):
            f = f.fget
        elif isinstance(f, functools.cached_property):
            f = f.func
        elif hasattr(f, "__pv_original__"):
            f = f.__pv_original__
        elif hasattr(f, "__wrapped__"):
            f = f.__wrapped__
        else:
            break
    return f


def _codes_of(code, name, out):
    out[code] = name
    for c in code.co_consts:
        if isinstance(c, types.CodeType):
            _codes_of(c, name, out)


def _collect(modname):
    out = {}
    try:
        m = importlib.import_module(modname)
    except Exception:
        return out
    for k, v in list(vars(m).items()):
        v = _unwrap(v)
        if isinstance(v, types.FunctionType) and v.__module__ == modname:
            _codes_of(v.__code__, "%s:%s" % (modname, v.__qualname__), out)
        elif isinstance(v, type) and v.__module__ == modname:
            for k2, v2 in list(vars(v).items()):
                f = _unwrap(v2)
                if isinstance(f, types.FunctionType):
                    _codes_of(f.__code__, "%s:%s" % (modname, f.__qualname__), out)
    return out


def _on_line(code, line):
    s = _EXEC.get(code)
    if s is not None:
        s.add(line)
    return sys.monitoring.DISABLE


def install(pid):
    if not hasattr(sys, "monitoring") or _ON[0]:
        return False
    mon = sys.monitoring
    tool = mon.COVERAGE_ID
    try:
        mon.use_tool_id(tool, "pv-observe")
    except Exception:
        return False
    mon.register_callback(tool, mon.events.LINE, _on_line)
    for modname in _anchored_modules(pid):
        for code, name in _collect(modname).items():
            _CODES[code] = name
            _EXEC[code] = set()
            try:
                mon.set_local_events(tool, code, mon.events.LINE)
            except Exception:
                pass
    _ON[0] = True
    return True


def report():
    """{function: {"exec": [lines], "all": [lines], "file": path}}"""
    out = {}
    for code, name in _CODES.items():
        lines = sorted({ln for (_, _, ln) in code.co_lines() if ln is not None and ln != code.co_firstlineno})
        d = out.setdefault(name, {"exec": set(), "all": set(), "file": code.co_filename})
        d["all"].update(lines)
        d["exec"].update(l for l in _EXEC.get(code, ()) if l in d["all"] or True)
    return {k: {"exec": sorted(v["exec"] & v["all"]), "all": sorted(v["all"]), "file": v["file"]} for k, v in out.items()}


def summarize(merged):
    """merged: {function: {"exec": set, "all": set, "file": path}} -> (coverage dict, never-executed lines dict)"""
    cov, missing = {}, {}
    for name in sorted(merged):
        d = merged[name]
        ex, al = set(d["exec"]), set(d["all"])
        if not al:
            continue
        cov[name] = "%d/%d" % (len(ex & al), len(al))
        miss = sorted(al - ex)
        if miss and ex:
            missing[name] = ["%d: %s" % (ln, linecache.getline(d["file"], ln).strip()[:100]) for ln in miss[:12]]
        elif miss and not ex:
            missing[name] = ["(function never entered)"]
    return cov, missing
