"""M-h2c and M-hkdf: stage-by-stage monitors on hashing (RFC 9380, RFC 5869)."""
from __future__ import annotations

import inspect

from .. import core
from ..model import h2c as M
from ..model import hkdf as MH
from ..model import params
from . import conv
from .install import watch

F1, F2 = params.BLS_FP, params.BLS_FP2
E1, E2 = params.BLS_E1, params.BLS_E2
_RAISE = object()


def _hname(H):
    return getattr(H, "__name__", repr(H))


def _args(a, k, names):
    """positional view of the call's arguments (tolerates keyword use)."""
    out = list(a)
    for n in names[len(a):]:
        if n in k:
            out.append(k[n])
    return out


# ------------------------------------------------------------------ xmd
def h_xmd(a, k, res, exc):
    rec = core.cur()
    msg, dst, n, H = _args(a, k, ["msg", "DST", "len_in_bytes", "hash_function"])
    try:
        exp = M.expand_message_xmd(bytes(msg), bytes(dst), n, H)
    except ValueError:
        exp = _RAISE
    case = {"fn": "expand_message_xmd", "msg": bytes(msg), "dst": bytes(dst), "len": n, "hash": _hname(H)}
    if exc is not None:
        rec.check("M-h2c.xmd", exp is _RAISE, "xmd", "expand_message_xmd raised %r where RFC 9380 defines an output" % (exc,),
                  case=case, facts={"stage": "xmd", "kind": "unexpected-raise"})
    else:
        good = exp is not _RAISE and isinstance(res, (bytes, bytearray)) and bytes(res) == exp
        rec.check("M-h2c.xmd", good, "xmd",
                  "expand_message_xmd output differs from RFC 9380 5.3.1" if exp is not _RAISE else "expand_message_xmd returned bytes for parameters the RFC refuses",
                  case=case, facts={"stage": "xmd", "kind": "value" if exp is not _RAISE else "missing-refusal"},
                  expected=None if exp is _RAISE else exp[:64], observed=bytes(res)[:64] if isinstance(res, (bytes, bytearray)) else res)


def _h_h2f(m):
    def h(a, k, res, exc):
        rec = core.cur()
        msg, count, dst, H = _args(a, k, ["message", "count", "DST", "hash_function"])
        try:
            exp = M.hash_to_field(bytes(msg), count, bytes(dst), H, m)
        except ValueError:
            exp = _RAISE
        case = {"fn": "hash_to_field_FQ2" if m == 2 else "hash_to_field_FQ", "msg": bytes(msg), "count": count,
                "dst": bytes(dst), "hash": _hname(H)}
        mon = "M-h2c.h2f"
        if exc is not None:
            rec.check(mon, exp is _RAISE, "h2f", "hash_to_field raised %r" % (exc,), case=case,
                      facts={"stage": "hash_to_field", "m": m, "kind": "unexpected-raise"})
        else:
            got = None
            try:
                got = [conv.el(u) for u in res]
            except Exception:
                pass
            rec.check(mon, exp is not _RAISE and got == exp, "h2f", "hash_to_field elements differ from RFC 9380 5.2",
                      case=case, facts={"stage": "hash_to_field", "m": m, "kind": "value"}, expected=exp if exp is not _RAISE else "raise", observed=got)
    return h


# ------------------------------------------------------------------ SSWU, isogeny, map
def _h_swu(g):
    F = F1 if g == 1 else F2
    sswu = M.G1_SSWU if g == 1 else M.G2_SSWU

    def h(a, k, res, exc):
        rec = core.cur()
        (t,) = _args(a, k, ["t"])
        u = conv.el_mod(t, F.p)
        exp, tr = sswu.map(u)
        case = {"fn": "optimized_swu_G%d" % g, "u": list(u)}
        mon = "M-h2c.swu"
        rec.path("swu_G%d:%s:%s" % (g, "exceptional" if tr["exceptional"] else "regular",
                                     "gx1_square" if tr["gx1_square"] else "gx1_nonsquare"))
        if exc is not None:
            rec.check(mon, False, "swu", "optimized_swu_G%d raised %r" % (g, exc), case=case,
                      facts={"stage": "sswu", "group": "G%d" % g, "kind": "raise"})
            return
        got = conv.aff_from_proj(res, F)
        rec.check(mon, got == exp, "swu", "optimized_swu_G%d differs from RFC 9380 6.6.2 straight-line SSWU" % g,
                  case=case, facts={"stage": "sswu", "group": "G%d" % g, "kind": "value"}, expected=exp, observed=got)
        if got is not None:
            rec.check("M-h2c.sgn0", F.sgn0(got[1]) == F.sgn0(u), "swu", "sgn0(y) != sgn0(u)", case=case,
                      facts={"stage": "sswu", "group": "G%d" % g, "kind": "sgn0"})
    return h


def _h_iso(g):
    F = F1 if g == 1 else F2
    iso = M.ISO11 if g == 1 else M.ISO3

    def h(a, k, res, exc):
        rec = core.cur()
        x, y, z = _args(a, k, ["x", "y", "z"])
        src = conv.aff_from_proj((x, y, z), F)
        case = {"fn": "iso_map_G%d" % g, "xyz": [list(conv.el(c)) for c in (x, y, z)]}
        if exc is not None:
            rec.check("M-h2c.iso", False, "iso", "iso_map_G%d raised %r" % (g, exc), case=case,
                      facts={"stage": "iso", "group": "G%d" % g, "kind": "raise"})
            return
        if src is None:
            return
        exp = iso.map(src)
        got = conv.aff_from_proj(res, F)
        rec.check("M-h2c.iso", got == exp, "iso", "iso_map_G%d differs from the RFC 9380 appendix E rational map" % g,
                  case=case, facts={"stage": "iso", "group": "G%d" % g, "kind": "value"}, expected=exp, observed=got)
    return h


def _h_map(g):
    F = F1 if g == 1 else F2
    E = E1 if g == 1 else E2
    mp = M.map_to_curve_g1 if g == 1 else M.map_to_curve_g2

    def h(a, k, res, exc):
        rec = core.cur()
        (t,) = _args(a, k, ["u"])
        u = conv.el_mod(t, F.p)
        exp, _, tr = mp(u)
        case = {"fn": "map_to_curve_G%d" % g, "u": list(u)}
        if exc is not None:
            rec.check("M-h2c.map", False, "map", "map_to_curve_G%d raised %r" % (g, exc), case=case,
                      facts={"stage": "map_to_curve", "group": "G%d" % g, "kind": "raise"})
            return
        got = conv.aff_from_proj(res, F)
        rec.check("M-h2c.map", got == exp and E.on_curve(got), "map", "map_to_curve_G%d differs from SSWU followed by the isogeny" % g,
                  case=case, facts={"stage": "map_to_curve", "group": "G%d" % g, "kind": "value"}, expected=exp, observed=got)
    return h


def _h_clear(g):
    F = F1 if g == 1 else F2
    E = E1 if g == 1 else E2
    heff = params.BLS_HEFF1 if g == 1 else params.BLS_HEFF2

    def h(a, k, res, exc):
        rec = core.cur()
        (p,) = _args(a, k, ["p"])
        src = conv.aff_from_proj(p, F)
        case = {"fn": "clear_cofactor_G%d" % g, "p": [list(conv.el(c)) for c in p]}
        if exc is not None:
            rec.check("M-h2c.clear", False, "clear", "clear_cofactor_G%d raised %r" % (g, exc), case=case,
                      facts={"stage": "clear_cofactor", "group": "G%d" % g, "kind": "raise"})
            return
        exp = E.mul(src, heff)
        got = conv.aff_from_proj(res, F)
        rec.check("M-h2c.clear", got == exp, "clear", "clear_cofactor_G%d differs from [h_eff]P" % g, case=case,
                  facts={"stage": "clear_cofactor", "group": "G%d" % g, "kind": "value"}, expected=exp, observed=got)
        if E.on_curve(src):
            rec.check("M-h2c.subgroup", E.mul(got, params.BLS_R) is None, "clear", "cleared point is not in the prime-order subgroup",
                      case=case, facts={"stage": "clear_cofactor", "group": "G%d" % g, "kind": "subgroup"})
    return h


def _h_hash(g):
    F = F1 if g == 1 else F2
    E = E1 if g == 1 else E2
    hp = M.hash_to_g1 if g == 1 else M.hash_to_g2

    def h(a, k, res, exc):
        rec = core.cur()
        msg, dst, H = _args(a, k, ["message", "DST", "hash_function"])
        case = {"fn": "hash_to_G%d" % g, "msg": bytes(msg), "dst": bytes(dst), "hash": _hname(H)}
        try:
            exp = hp(bytes(msg), bytes(dst), H)
        except ValueError:
            exp = _RAISE
        if exc is not None:
            rec.check("M-h2c.hash", exp is _RAISE, "hash", "hash_to_G%d raised %r" % (g, exc), case=case,
                      facts={"stage": "hash_to_curve", "group": "G%d" % g, "kind": "unexpected-raise"})
            return
        got = conv.aff_from_proj(res, F)
        good = exp is not _RAISE and got == exp
        rec.check("M-h2c.hash", good, "hash", "hash_to_G%d differs from the RFC 9380 suite" % g, case=case,
                  facts={"stage": "hash_to_curve", "group": "G%d" % g, "kind": "value"}, expected=None if exp is _RAISE else exp, observed=got)
        if got is not None:
            rec.check("M-h2c.subgroup", E.on_curve(got) and E.mul(got, params.BLS_R) is None, "hash",
                      "hash_to_G%d result not on curve / not in the subgroup" % g, case=case,
                      facts={"stage": "hash_to_curve", "group": "G%d" % g, "kind": "subgroup"})
    return h


# ------------------------------------------------------------------ HKDF
def h_extract(a, k, res, exc):
    rec = core.cur()
    salt, ikm = _args(a, k, ["salt", "ikm"])
    case = {"fn": "hkdf_extract", "salt": bytes(salt), "ikm": bytes(ikm)}
    if exc is not None:
        rec.check("M-hkdf.extract", False, "hkdf", "hkdf_extract raised %r" % (exc,), case=case, facts={"fn": "extract", "kind": "raise"})
        return
    exp = MH.hkdf_extract(bytes(salt), bytes(ikm))
    rec.check("M-hkdf.extract", bytes(res) == exp, "hkdf", "hkdf_extract differs from RFC 5869", case=case,
              facts={"fn": "extract", "kind": "value"}, expected=exp, observed=bytes(res))


def h_expand(a, k, res, exc):
    rec = core.cur()
    prk, info, length = _args(a, k, ["prk", "info", "length"])
    case = {"fn": "hkdf_expand", "prk": bytes(prk), "info": bytes(info), "length": length}
    if not isinstance(length, int) or length < 0 or length > 255 * 32:
        return                                   # outside the statement
    if exc is not None:
        rec.check("M-hkdf.expand", False, "hkdf", "hkdf_expand raised %r" % (exc,), case=case, facts={"fn": "expand", "kind": "raise"})
        return
    exp = MH.hkdf_expand(bytes(prk), bytes(info), length)
    rec.check("M-hkdf.expand", bytes(res) == exp, "hkdf", "hkdf_expand differs from RFC 5869", case=case,
              facts={"fn": "expand", "kind": "value"}, expected=exp[:64], observed=bytes(res)[:64])


H2C = "py_ecc.bls.hash_to_curve"
SWU = "py_ecc.optimized_bls12_381.optimized_swu"
HASH = "py_ecc.bls.hash"

CATALOG = {
    "xmd": (HASH, "expand_message_xmd", "M-h2c.xmd", h_xmd),
    "h2f1": (H2C, "hash_to_field_FQ", "M-h2c.h2f", _h_h2f(1)),
    "h2f2": (H2C, "hash_to_field_FQ2", "M-h2c.h2f", _h_h2f(2)),
    "swu1": (SWU, "optimized_swu_G1", "M-h2c.swu", _h_swu(1)),
    "swu2": (SWU, "optimized_swu_G2", "M-h2c.swu", _h_swu(2)),
    "iso1": (SWU, "iso_map_G1", "M-h2c.iso", _h_iso(1)),
    "iso2": (SWU, "iso_map_G2", "M-h2c.iso", _h_iso(2)),
    "map1": (H2C, "map_to_curve_G1", "M-h2c.map", _h_map(1)),
    "map2": (H2C, "map_to_curve_G2", "M-h2c.map", _h_map(2)),
    "clear1": (H2C, "clear_cofactor_G1", "M-h2c.clear", _h_clear(1)),
    "clear2": (H2C, "clear_cofactor_G2", "M-h2c.clear", _h_clear(2)),
    "hash1": (H2C, "hash_to_G1", "M-h2c.hash", _h_hash(1)),
    "hash2": (H2C, "hash_to_G2", "M-h2c.hash", _h_hash(2)),
    "extract": (HASH, "hkdf_extract", "M-hkdf.extract", h_extract),
    "expand": (HASH, "hkdf_expand", "M-hkdf.expand", h_expand),
}


def install(which=None):
    ok = {}
    for key, (modname, attr, mon, handler) in CATALOG.items():
        if which is None or key in which:
            ok[key] = watch(modname, attr, mon, handler)
    return ok
