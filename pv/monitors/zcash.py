"""M-zcash and M-subgroup: monitors on point (de)compression, the byte helpers and
subgroup_check.  Oracles: pv.model.zcash (format note) and model scalar
multiplication by r.  Only raw attributes of library objects are read."""
from __future__ import annotations

from .. import core
from ..model import params, zcash as Z
from . import conv
from .install import watch

F1, F2 = params.BLS_FP, params.BLS_FP2
E1, E2 = params.BLS_E1, params.BLS_E2
R = params.BLS_R
PC = "py_ecc.bls.point_compression"
G2P = "py_ecc.bls.g2_primitives"

# model [r]P is the expensive part of M-subgroup; cache by affine point
_SUB_CACHE = {}


def in_subgroup(E, Pt):
    key = (id(E), Pt)
    v = _SUB_CACHE.get(key)
    if v is None:
        v = E.mul(Pt, R) is None
        if len(_SUB_CACHE) < 50000:
            _SUB_CACHE[key] = v
    return v


def _is_triple(pt, deg):
    try:
        if len(pt) != 3:
            return False
        for c in pt:
            if len(conv.el(c)) != deg:
                return False
        return True
    except Exception:
        return False


def _xfacts(group, Pt, **kw):
    d = {"group": group}
    d["affine_x_zero"] = bool(Pt is not None and not any(Pt[0]))
    d.update(kw)
    return d


def _word_ok(z):
    return isinstance(z, int) and not isinstance(z, bool) and 0 <= z < (1 << 384)


# ------------------------------------------------------------------ compress
def _h_compress(g):
    F, E = (F1, E1) if g == 1 else (F2, E2)
    deg = g

    def h(a, k, res, exc):
        rec = core.cur()
        pt = a[0] if a else k.get("pt")
        if not _is_triple(pt, deg):
            return
        Pt = conv.aff_from_proj(pt, F)
        case = {"fn": "compress_G%d" % g, "pt": [list(conv.el(c)) for c in pt]}
        on = Pt is None or E.on_curve(Pt)
        if not on:
            if g == 2:
                # compress_G2 documents a refusal for off-curve input
                rec.check("M-zcash.compress", exc is not None and isinstance(exc, ValueError), "compress:offcurve",
                          "compress_G2 accepted an off-curve point (or refused it with %r instead of ValueError)" % (exc,),
                          case=case, facts=_xfacts("G2", Pt, fn="compress", kind="offcurve"))
            return
        if exc is not None:
            rec.check("M-zcash.compress", False, "compress", "compress_G%d raised %r on a curve point" % (g, exc), case=case,
                      facts=_xfacts("G%d" % g, Pt, fn="compress", kind="raise"))
            return
        if g == 1:
            exp = Z.enc_g1_word(Pt)
            got = res
        else:
            exp = Z.enc_g2_words(Pt)
            got = tuple(res) if isinstance(res, (tuple, list)) else res
        rec.check("M-zcash.compress", got == exp, "compress", "compress_G%d differs from the ZCash encoding" % g, case=case,
                  facts=_xfacts("G%d" % g, Pt, fn="compress", kind="value"), expected=exp, observed=got)
    return h


# ------------------------------------------------------------------ decompress
def _judge_decode(rec, g, fn, words, res, exc, case, kindprefix=""):
    """Shared by decompress_G* and the byte helpers.  ``words``: int (G1) or (z1, z2)."""
    F, E = (F1, E1) if g == 1 else (F2, E2)
    mon = "M-zcash.decompress"
    try:
        exp = Z.dec_g1_word(words) if g == 1 else Z.dec_g2_words(*words)
        refuse = None
    except Z.DecodeError as e:
        exp, refuse = None, str(e)
    if refuse is not None:
        rec.path("decode_G%d:refuse:%s" % (g, refuse))
        ok = exc is not None and isinstance(exc, ValueError)
        what = ("%s accepted a word the ZCash format rejects (%s)" % (fn, refuse)) if exc is None else \
               ("%s refused with %r instead of ValueError" % (fn, exc))
        rec.check(mon, ok, "decode:invalid", what, case=case,
                  facts={"group": "G%d" % g, "fn": "decompress", "kind": "missing-refusal" if exc is None else "wrong-exception", "reason": refuse})
        return
    rec.path("decode_G%d:accept:%s" % (g, "infinity" if exp is None else "point"))
    if exc is not None:
        rec.check(mon, False, "decode:valid", "%s refused a valid encoding with %r" % (fn, exc), case=case,
                  facts=_xfacts("G%d" % g, exp, fn="decompress", kind="refused-valid"))
        return
    got = conv.aff_from_proj(res, F) if _is_triple(res, g) else "not-a-point"
    rec.check(mon, got == exp, "decode:valid", "%s returned a different point than the ZCash decoding" % fn, case=case,
              facts=_xfacts("G%d" % g, exp, fn="decompress", kind="value"), expected=exp, observed=got)
    if got != "not-a-point":
        # the statement's own wording: on curve, and its compression is exactly the input
        on = got is None or E.on_curve(got)
        back = (Z.enc_g1_word(got) if g == 1 else Z.enc_g2_words(got)) if on else None
        rec.check("M-zcash.canonical", on and back == words, "decode:valid",
                  "%s accepted a word whose decoding is off-curve or re-encodes differently" % fn, case=case,
                  facts=_xfacts("G%d" % g, exp, fn="decompress", kind="canonical"))


def h_decompress_g1(a, k, res, exc):
    rec = core.cur()
    z = a[0] if a else k.get("z")
    if not _word_ok(z):
        return
    _judge_decode(rec, 1, "decompress_G1", z, res, exc, {"fn": "decompress_G1", "z": z})


def h_decompress_g2(a, k, res, exc):
    rec = core.cur()
    p = a[0] if a else k.get("p")
    try:
        z1, z2 = p
    except Exception:
        return
    if not (_word_ok(z1) and _word_ok(z2)):
        return
    _judge_decode(rec, 2, "decompress_G2", (z1, z2), res, exc, {"fn": "decompress_G2", "z1": z1, "z2": z2})


# ------------------------------------------------------------------ byte helpers
def h_pubkey_to_g1(a, k, res, exc):
    rec = core.cur()
    bs = a[0] if a else k.get("pubkey")
    if not isinstance(bs, (bytes, bytearray)) or len(bs) != 48:
        return
    _judge_decode(rec, 1, "pubkey_to_G1", int.from_bytes(bs, "big"), res, exc, {"fn": "pubkey_to_G1", "bytes": bytes(bs)})


def h_signature_to_g2(a, k, res, exc):
    rec = core.cur()
    bs = a[0] if a else k.get("signature")
    if not isinstance(bs, (bytes, bytearray)) or len(bs) != 96:
        return
    _judge_decode(rec, 2, "signature_to_G2", (int.from_bytes(bs[:48], "big"), int.from_bytes(bs[48:], "big")), res, exc,
                  {"fn": "signature_to_G2", "bytes": bytes(bs)})


def _h_to_bytes(g):
    F, E = (F1, E1) if g == 1 else (F2, E2)
    name = "G1_to_pubkey" if g == 1 else "G2_to_signature"

    def h(a, k, res, exc):
        rec = core.cur()
        pt = a[0] if a else k.get("pt")
        if not _is_triple(pt, g):
            return
        Pt = conv.aff_from_proj(pt, F)
        if not (Pt is None or E.on_curve(Pt)):
            return
        case = {"fn": name, "pt": [list(conv.el(c)) for c in pt]}
        if exc is not None:
            rec.check("M-zcash.bytes", False, "tobytes", "%s raised %r on a curve point" % (name, exc), case=case,
                      facts=_xfacts("G%d" % g, Pt, fn="tobytes", kind="raise"))
            return
        exp = Z.enc_g1(Pt) if g == 1 else Z.enc_g2(Pt)
        good = isinstance(res, (bytes, bytearray)) and len(res) == 48 * g and bytes(res) == exp
        rec.check("M-zcash.bytes", good, "tobytes", "%s is not the %d-byte ZCash encoding" % (name, 48 * g), case=case,
                  facts=_xfacts("G%d" % g, Pt, fn="tobytes", kind="value"), expected=exp, observed=res)
    return h


# ------------------------------------------------------------------ subgroup_check
def h_subgroup(a, k, res, exc):
    rec = core.cur()
    pt = a[0] if a else k.get("P")
    g = 1 if _is_triple(pt, 1) else 2 if _is_triple(pt, 2) else 0
    if not g:
        return
    F, E = (F1, E1) if g == 1 else (F2, E2)
    Pt = conv.aff_from_proj(pt, F)
    if Pt is not None and not E.on_curve(Pt):
        rec.event("subgroup_check:offcurve-input")
        return
    case = {"fn": "subgroup_check", "pt": [list(conv.el(c)) for c in pt]}
    if exc is not None:
        rec.check("M-subgroup", False, "subgroup", "subgroup_check raised %r" % (exc,), case=case,
                  facts={"group": "G%d" % g, "kind": "raise"})
        return
    exp = True if Pt is None else in_subgroup(E, Pt)
    rec.path("subgroup_G%d:%s" % (g, "in" if exp else "out"))
    rec.check("M-subgroup", res is exp or (isinstance(res, bool) and res == exp), "subgroup",
              "subgroup_check returned %r, [r]P %s infinity" % (res, "is" if exp else "is not"), case=case,
              facts={"group": "G%d" % g, "kind": "false-accept" if not exp else "false-reject"}, expected=exp, observed=res)


CATALOG = {
    "compress1": (PC, "compress_G1", "M-zcash.compress", _h_compress(1)),
    "compress2": (PC, "compress_G2", "M-zcash.compress", _h_compress(2)),
    "decompress1": (PC, "decompress_G1", "M-zcash.decompress", h_decompress_g1),
    "decompress2": (PC, "decompress_G2", "M-zcash.decompress", h_decompress_g2),
    "pk2g1": (G2P, "pubkey_to_G1", "M-zcash.decompress", h_pubkey_to_g1),
    "sig2g2": (G2P, "signature_to_G2", "M-zcash.decompress", h_signature_to_g2),
    "g12pk": (G2P, "G1_to_pubkey", "M-zcash.bytes", _h_to_bytes(1)),
    "g22sig": (G2P, "G2_to_signature", "M-zcash.bytes", _h_to_bytes(2)),
    "subgroup": (G2P, "subgroup_check", "M-subgroup", h_subgroup),
}


def install(which=None):
    ok = {}
    for key, (modname, attr, mon, handler) in CATALOG.items():
        if which is None or key in which:
            ok[key] = watch(modname, attr, mon, handler)
    return ok
