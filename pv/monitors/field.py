"""M-field-inv and M-field-op: monitors on the field classes themselves.

The four base classes (reference FQ/FQP, optimized FQ/FQP) get their
``__init__`` and arithmetic methods wrapped *on the class*, so every element
created and every operation executed by any workload (direct calls, curve
arithmetic, pairings, hashing, the repository's own tests) is observed.
Handlers read raw state (``.n``, ``.coeffs``, ``.modulus_coeffs``,
``type(x).field_modulus``) and compute with pv.model.gf only.
"""
from __future__ import annotations

import functools
import sys

from .. import core
from ..model.gf import Fld
from .conv import ival
from . import install as _install
from .install import _safe

REF = "py_ecc.fields.field_elements"
OPT = "py_ecc.fields.optimized_field_elements"

EVERY = {"ctor": 1, "op": 1, "inner_op": 61, "inner_ctor": 17}
_CNT = {"ctor": 0, "op": 0}
_DEPTH = [0]
_FLD = {}
_PATCHED = []


def fld_for(p, mc=None):
    key = (p, None if mc is None else tuple(int(ival(c)) % p for c in mc))
    f = _FLD.get(key)
    if f is None:
        f = Fld(p, key[1])
        _FLD[key] = f
    return f


def _impl(obj):
    return "opt" if type(obj).__module__ != REF and _is_opt(type(obj)) else "ref"


def _is_opt(cls):
    opt = sys.modules.get(OPT)
    return opt is not None and issubclass(cls, (opt.FQ, opt.FQP))


def _kind(obj):
    return "FQP" if hasattr(obj, "coeffs") else "FQ"


def value_of(obj):
    """(Fld, element tuple) for a field object, reading raw attributes only."""
    p = type(obj).field_modulus
    if hasattr(obj, "coeffs"):
        F = fld_for(p, obj.modulus_coeffs)
        return F, tuple(ival(c) % p for c in obj.coeffs)
    return fld_for(p), (obj.n % p,)


def canonical_problem(obj):
    """None if the stored state is canonical, else a description."""
    p = type(obj).field_modulus
    if hasattr(obj, "coeffs"):
        cs = obj.coeffs
        if type(cs) is not tuple:
            return "coeffs is %s, not tuple" % type(cs).__name__
        if len(cs) != obj.degree or len(obj.modulus_coeffs) != obj.degree:
            return "len(coeffs)=%d degree=%d len(modulus_coeffs)=%d" % (len(cs), obj.degree, len(obj.modulus_coeffs))
        opt = _is_opt(type(obj))
        for c in cs:
            if type(c) is int:
                if not opt:
                    return "reference FQP coefficient stored as plain int"
                if not 0 <= c < p:
                    return "coefficient %d outside [0, p)" % c
            elif hasattr(c, "n") and hasattr(type(c), "field_modulus"):
                if type(c).field_modulus != p:
                    return "coefficient from another field"
                if type(c.n) is not int or not 0 <= c.n < p:
                    return "FQ coefficient with n outside [0, p)"
            else:
                return "coefficient of type %s" % type(c).__name__
        return None
    n = obj.n
    if type(n) is not int:
        return "n of type %s" % type(n).__name__
    if not 0 <= n < p:
        return "n = %d outside [0, p)" % n
    return None


def h_ctor(self_, a, k, exc):
    if exc is not None:
        return
    _CNT["ctor"] += 1
    if _CNT["ctor"] % (EVERY["inner_ctor"] if _DEPTH[0] else EVERY["ctor"]):
        return
    rec = core.cur()
    prob = canonical_problem(self_)
    name = ("opt." if _is_opt(type(self_)) else "ref.") + _kind(self_)
    rec.event("constructed:" + name)
    rec.check("M-field-inv", prob is None, "ctor:" + name, "element not stored in reduced form: %s" % prob,
              case={"fn": "ctor", "cls": type(self_).__name__, "args": repr(a)[:300]}, facts={"monitor": "field-inv", "cls": name, "problem": (prob or "")[:40]})


def _operand(F, self_, other):
    """model value of an operand, or None if its type is not one the op is specified for"""
    if type(other) is int:
        return ("int", F.const(other))
    if isinstance(other, bool):
        return None
    if hasattr(other, "coeffs"):
        if not hasattr(self_, "coeffs") or type(other).field_modulus != type(self_).field_modulus or len(other.coeffs) != F.k:
            return None
        if tuple(ival(c) % F.p for c in other.modulus_coeffs) != F.mc:
            return None
        return ("el", tuple(ival(c) % F.p for c in other.coeffs))
    if hasattr(other, "n") and hasattr(type(other), "field_modulus"):
        if type(other).field_modulus != F.p:
            return None
        return ("fq", F.const(other.n))
    return None


def _accepted(name, opname, kind, k):
    if k == 1:
        return kind in ("int", "fq")
    if opname in ("__add__", "__sub__"):
        return kind == "el"
    if opname in ("__mul__", "__rmul__", "__truediv__"):
        return kind in ("el", "int") or (kind == "fq" and name.startswith("ref."))
    return False


BINOPS = {
    "__add__": lambda F, a, b: F.add(a, b), "__radd__": lambda F, a, b: F.add(b, a),
    "__sub__": lambda F, a, b: F.sub(a, b), "__rsub__": lambda F, a, b: F.sub(b, a),
    "__mul__": lambda F, a, b: F.mul(a, b), "__rmul__": lambda F, a, b: F.mul(b, a),
    "__truediv__": lambda F, a, b: F.div(a, b), "__rtruediv__": lambda F, a, b: F.div(b, a),
}


def _mk_op_handler(opname):
    def h(self_, a, k, res, exc):
        _CNT["op"] += 1
        if _CNT["op"] % (EVERY["inner_op"] if _DEPTH[0] else EVERY["op"]):
            return
        rec = core.cur()
        F, sv = value_of(self_)
        name = ("opt." if _is_opt(type(self_)) else "ref.") + _kind(self_)
        facts = {"monitor": "field-op", "cls": name, "op": opname}
        case = {"fn": "fieldop", "cls": type(self_).__name__, "op": opname, "self": list(sv), "p": F.p, "mc": list(F.mc)}
        if opname in BINOPS:
            other = a[0] if a else None
            ov = _operand(F, self_, other)
            if ov is None:
                return                     # operand type outside the specification (misuse)
            kind, ovv = ov
            if not _accepted(name, opname, kind, F.k):
                return                     # operand kind this operation is not specified for
            case["other"] = list(ovv)
            case["other_kind"] = kind
            if exc is not None:
                rec.check("M-field-op", False, "op:" + name, "%s.%s raised %r" % (name, opname, exc), case=case, facts=dict(facts, kind="raise"))
                return
            if res is NotImplemented:
                return
            exp = BINOPS[opname](F, sv, ovv)
        elif opname == "__neg__":
            if exc is not None:
                rec.check("M-field-op", False, "op:" + name, "%s.__neg__ raised %r" % (name, exc), case=case, facts=dict(facts, kind="raise"))
                return
            exp = F.neg(sv)
        elif opname == "inv":
            if exc is not None:
                rec.check("M-field-op", False, "op:" + name, "%s.inv raised %r" % (name, exc), case=case, facts=dict(facts, kind="raise"))
                return
            exp = F.inv(sv)
        elif opname == "__pow__":
            e = a[0] if a else None
            if type(e) is not int or e < 0:
                return
            case["exp"] = e
            if exc is not None:
                rec.check("M-field-op", False, "op:" + name, "%s ** (%d-bit exponent) raised %r" % (name, e.bit_length(), exc), case=case,
                          facts=dict(facts, kind="raise", exc=type(exc).__name__))
                return
            exp = F.pow(sv, e)
        else:
            return
        try:
            _, got = value_of(res)
            prob = canonical_problem(res)
            same_type = type(res) is type(self_)
        except Exception as e:
            got, prob, same_type = None, "result is %r" % (type(res),), False
        rec.event("op:%s.%s" % (name, opname))
        rec.check("M-field-op", got == exp and prob is None and same_type, "op:" + name,
                  "%s.%s result differs from the field operation%s" % (name, opname, "" if prob is None else " / not canonical: " + prob),
                  case=case, facts=dict(facts, kind="value"), expected=exp, observed=got)
    return h


def _patch_method(cls, name, handler, is_ctor=False):
    orig = cls.__dict__.get(name)
    if orig is None:
        return False
    mon = "M-field-inv" if is_ctor else "M-field-op"
    if is_ctor:
        @functools.wraps(orig)
        def w(self_, *a, **k):
            if _install.PASSTHROUGH[0]:
                return orig(self_, *a, **k)
            try:
                orig(self_, *a, **k)
            except BaseException as e:
                raise
            _safe(handler, mon, self_, a, k, None)
    else:
        @functools.wraps(orig)
        def w(self_, *a, **k):
            if _install.PASSTHROUGH[0]:
                return orig(self_, *a, **k)
            _DEPTH[0] += 1
            try:
                res = orig(self_, *a, **k)
            except BaseException as e:
                _DEPTH[0] -= 1
                _safe(handler, mon, self_, a, k, None, e)
                raise
            _DEPTH[0] -= 1
            _safe(handler, mon, self_, a, k, res, None)
            return res
    w.__pv_original__ = orig
    setattr(cls, name, w)
    _PATCHED.append((cls, name, orig))
    return True


OPS = ["__add__", "__radd__", "__sub__", "__rsub__", "__mul__", "__rmul__", "__truediv__", "__rtruediv__", "__neg__", "__pow__", "inv"]


def base_classes():
    out = []
    for modname in (REF, OPT):
        m = sys.modules.get(modname)
        if m is None:
            import importlib
            m = importlib.import_module(modname)
        for cn in ("FQ", "FQP"):
            c = getattr(m, cn, None)
            if c is not None:
                out.append(c)
    return out


def install(ctor=True, ops=True, every_ctor=1, every_op=1, inner_op=61, inner_ctor=17):
    """every_*: sampling period for outermost activations; inner_*: for operations and
    constructions that happen inside another monitored field operation (e.g. the 144
    coefficient products of one reference FQ12 multiplication, the squarings of a power)."""
    EVERY["ctor"], EVERY["op"], EVERY["inner_op"], EVERY["inner_ctor"] = every_ctor, every_op, inner_op, inner_ctor
    if _PATCHED:
        return
    rec = core.CUR
    for cls in base_classes():
        if ctor and not _patch_method(cls, "__init__", h_ctor, is_ctor=True) and rec is not None:
            rec.unavailable.append("%s.%s.__init__" % (cls.__module__, cls.__name__))
        if ops:
            for op in OPS:
                if op == "inv" and not hasattr(cls, "inv"):
                    continue
                _patch_method(cls, op, _mk_op_handler(op))


def uninstall():
    while _PATCHED:
        cls, name, orig = _PATCHED.pop()
        setattr(cls, name, orig)
