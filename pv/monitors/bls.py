"""M-bls: boundary monitors on the three IETF ciphersuite classes, and M-pair-arg on
the pairing as called from them.

Oracles (pv.model.bls, never library code):
  * SkToPk / Sign / PopProve / Aggregate / KeyGen outputs equal the model's bytes (C09, C16);
  * invalid secret keys are refused with eth_utils.ValidationError (C01);
  * Verify / PopVerify: with the secret key known (learned from observed SkToPk calls or
    registered by the driver) the expected answer is analytic -- True iff the 96 bytes are
    exactly the model's canonical signature (uniqueness of BLS signatures) (C01, C02);
  * AggregateVerify / FastAggregateVerify: preconditions and decode(sig) == sum sk_i*H(m_i') (C03);
  * KeyValidate == model (canonical 48 bytes, non-identity, subgroup) (C04);
  * every verification entry point returns a bool and never raises on bytes input (C04);
  * M-pair-arg: every argument pair with which `pairing` returns while a ciphersuite call is
    active is on its curve and in the prime-order subgroup, the G1 argument non-identity (C04).
"""
from __future__ import annotations

import importlib

from .. import core
from ..model import bls as MB
from ..model import params, zcash as Z
from . import conv
from . import install as _install
from .install import _safe, watch
from .zcash import in_subgroup

R = params.BLS_R
E1, E2, F1, F2 = params.BLS_E1, params.BLS_E2, params.BLS_FP, params.BLS_FP2
SUITE_OF = {"G2Basic": "basic", "G2MessageAugmentation": "aug", "G2ProofOfPossession": "pop"}
APIS = ["SkToPk", "KeyGen", "KeyValidate", "Sign", "Verify", "Aggregate", "AggregateVerify", "PopProve", "PopVerify", "FastAggregateVerify", "_AggregatePKs"]

SUITE_PARAMS = {"basic": MB.SuiteParams("basic"), "aug": MB.SuiteParams("aug"), "pop": MB.SuiteParams("pop")}   # + custom suites


def sp_of(suite):
    return SUITE_PARAMS[suite]


def kind_of(suite):
    return SUITE_PARAMS[suite].kind


KNOWN_SK = {}          # pk bytes -> sk  (learned / registered)
_API_DEPTH = [0]
_CACHE = {}
_PATCHED = []


def register_key(sk):
    pk = cached(("pk", sk), lambda: MB.sk_to_pk(sk))
    KNOWN_SK[pk] = sk
    return pk


def cached(key, fn):
    v = _CACHE.get(key)
    if v is None:
        v = fn()
        if len(_CACHE) < 200000:
            _CACHE[key] = v
    return v


def m_sign(suite, sk, msg):
    return cached(("sign", suite, sk, msg), lambda: MB.sign_p(sp_of(suite), sk, msg))


def m_sign_point(suite, sk, msg):
    return cached(("signpt", suite, sk, msg), lambda: MB.sign_point_p(sp_of(suite), sk, msg))


def m_pop(sk, suite="pop"):
    return cached(("pop", suite, sk), lambda: MB.pop_prove_p(sp_of(suite), sk))


def m_key_validate(pk):
    return cached(("kv", pk), lambda: MB.key_validate(pk))


def m_sig_valid(sig):
    return cached(("sv", sig), lambda: MB.sig_decode_valid(sig))


def _valid_sk(sk):
    return isinstance(sk, int) and not isinstance(sk, bool) and 1 <= sk < R


def _is_validation_error(exc):
    try:
        from eth_utils import ValidationError
    except Exception:
        return type(exc).__name__ == "ValidationError"
    return isinstance(exc, ValidationError)


def _b(x):
    return isinstance(x, bytes)


def _args(a, k, names):
    out = list(a)
    for n in names[len(a):]:
        out.append(k.get(n))
    return out


# ------------------------------------------------------------------ producers
def h_sktopk(suite, a, k, res, exc):
    rec = core.cur()
    (sk,) = _args(a, k, ["privkey"])
    case = {"fn": "SkToPk", "suite": suite, "sk": sk if isinstance(sk, int) else repr(sk)}
    if not _valid_sk(sk):
        if isinstance(sk, bool):
            return
        rec.check("M-bls.reject", exc is not None and _is_validation_error(exc), "reject", "SkToPk did not refuse an invalid secret key with ValidationError (got %r / %r)" % (res, exc),
                  case=case, facts={"fn": "SkToPk", "kind": "missing-refusal" if exc is None else "wrong-exception"})
        return
    if exc is not None:
        rec.check("M-bls.sktopk", False, "sktopk", "SkToPk raised %r for a valid key" % (exc,), case=case, facts={"fn": "SkToPk", "kind": "raise"})
        return
    exp = cached(("pk", sk), lambda: MB.sk_to_pk(sk))
    ok = isinstance(res, bytes) and res == exp
    rec.check("M-bls.sktopk", ok, "sktopk", "SkToPk differs from compress(sk*G1)", case=case, facts={"fn": "SkToPk", "kind": "value"}, expected=exp, observed=res)
    KNOWN_SK[exp] = sk


def _h_sign(pop=False):
    def h(suite, a, k, res, exc):
        rec = core.cur()
        if pop:
            (sk,) = _args(a, k, ["SK"])
            msg = b""
            fn = "PopProve"
        else:
            sk, msg = _args(a, k, ["SK", "message"])
            fn = "Sign"
        case = {"fn": fn, "suite": suite, "sk": sk if isinstance(sk, int) else repr(sk), "msg": msg if _b(msg) else repr(msg)}
        if isinstance(sk, bool):
            return
        if not _valid_sk(sk):
            rec.check("M-bls.reject", exc is not None and _is_validation_error(exc), "reject", "%s did not refuse an invalid secret key with ValidationError (got %r / %r)" % (fn, res, exc),
                      case=case, facts={"fn": fn, "kind": "missing-refusal" if exc is None else "wrong-exception"})
            return
        if not _b(msg):
            return
        if exc is not None:
            rec.check("M-bls.sign", False, "sign", "%s raised %r for a valid key" % (fn, exc), case=case, facts={"fn": fn, "kind": "raise", "suite": suite})
            return
        exp = m_pop(sk, suite) if pop else m_sign(suite, sk, msg)
        register_key(sk)
        rec.check("M-bls.sign", isinstance(res, bytes) and res == exp, "sign", "%s output differs from the IETF draft v4 byte string" % fn, case=case,
                  facts={"fn": fn, "kind": "value", "suite": suite}, expected=exp, observed=res)
    return h


def h_keygen(suite, a, k, res, exc):
    rec = core.cur()
    ikm, info = _args(a, k, ["IKM", "key_info"])
    if info is None:
        info = b""
    if not (_b(ikm) and _b(info)):
        return
    if _FAULT[0]:
        return          # fault-injection runs are judged by the driver (it knows the injected schedule)
    case = {"fn": "KeyGen", "ikm": ikm, "info": info}
    if exc is not None:
        rec.check("M-bls.keygen", False, "keygen", "KeyGen raised %r" % (exc,), case=case, facts={"fn": "KeyGen", "kind": "raise"})
        return
    exp = cached(("kg", suite, ikm, info), lambda: MB.keygen(ikm, info, 0, sp_of(suite).H))
    rec.check("M-bls.keygen", type(res) is int and 1 <= res < R and res == exp, "keygen", "KeyGen differs from draft v4 / out of range", case=case,
              facts={"fn": "KeyGen", "kind": "value"}, expected=exp, observed=res)


_FAULT = [0]


def h_aggregate(suite, a, k, res, exc):
    rec = core.cur()
    (sigs,) = _args(a, k, ["signatures"])
    try:
        sigs = list(sigs)
    except Exception:
        return
    case = {"fn": "Aggregate", "suite": suite, "sigs": [s if _b(s) else repr(s) for s in sigs]}
    bad_shape = len(sigs) < 1 or any(not _b(s) or len(s) != 96 for s in sigs)
    if bad_shape:
        rec.check("M-bls.aggregate", exc is not None and _is_validation_error(exc), "aggregate:refuse",
                  "Aggregate did not refuse an empty list / wrongly sized entry with ValidationError (got %r / %r)" % (res, exc), case=case,
                  facts={"fn": "Aggregate", "kind": "missing-refusal" if exc is None else "wrong-exception"})
        return
    try:
        exp = cached(("agg", tuple(sigs)), lambda: MB.aggregate(sigs))
    except ValueError:
        rec.check("M-bls.aggregate", exc is not None, "aggregate:undecodable", "Aggregate returned bytes although an entry does not decode", case=case,
                  facts={"fn": "Aggregate", "kind": "undecodable-accepted"})
        return
    if exc is not None:
        rec.check("M-bls.aggregate", False, "aggregate", "Aggregate raised %r on decodable signatures" % (exc,), case=case, facts={"fn": "Aggregate", "kind": "raise"})
        return
    rec.check("M-bls.aggregate", isinstance(res, bytes) and res == exp, "aggregate", "Aggregate is not the canonical encoding of the group sum", case=case,
              facts={"fn": "Aggregate", "kind": "value"}, expected=exp, observed=res)


# ------------------------------------------------------------------ verifiers
def _total(rec, fn, suite, res, exc, case):
    ok = exc is None and type(res) is bool
    rec.check("M-bls.total", ok, "total", "%s %s" % (fn, ("raised %r" % (exc,)) if exc is not None else ("returned non-bool %r" % (res,))), case=case,
              facts={"fn": fn, "kind": "raise" if exc is not None else "non-bool", "suite": suite})
    return ok


UNSAFE = ("invalid-key", "sig-length", "invalid-sig")


def _unsafe(rec, fn, suite, why, res, case):
    """C04: malformed / unsafe key or signature => False."""
    if why in UNSAFE:
        rec.check("M-bls.unsafe-input", res is False, "unsafe-input", "%s returned True although %s" % (fn, why), case=case,
                  facts={"fn": fn, "kind": "accepted-" + why, "suite": suite})


def h_keyvalidate(suite, a, k, res, exc):
    rec = core.cur()
    (pk,) = _args(a, k, ["PK"])
    if not _b(pk):
        return
    case = {"fn": "KeyValidate", "suite": suite, "pk": pk}
    if not _total(rec, "KeyValidate", suite, res, exc, case):
        return
    exp = m_key_validate(pk)
    rec.check("M-bls.keyvalidate", res == exp, "keyvalidate", "KeyValidate returned %r, expected %r (canonical 48-byte encoding of a non-identity subgroup point)" % (res, exp),
              case=case, facts={"fn": "KeyValidate", "kind": "false-accept" if res else "false-reject", "len": len(pk)}, expected=exp, observed=res)


def expected_verify(suite, pk, msg, sig, pop=False):
    """-> (expected bool or None when not decidable here, reason)"""
    if len(pk) != 48 or not m_key_validate(pk):
        return False, "invalid-key"
    if len(sig) != 96:
        return False, "sig-length"
    ok, _ = m_sig_valid(sig)
    if not ok:
        return False, "invalid-sig"
    sk = KNOWN_SK.get(pk)
    if sk is None:
        return None, "unknown-sk"
    canon = m_pop(sk, suite) if pop else m_sign(suite, sk, msg)
    return (sig == canon), ("canonical" if sig == canon else "non-canonical")


def _h_verify(pop=False):
    def h(suite, a, k, res, exc):
        rec = core.cur()
        if pop:
            pk, sig = _args(a, k, ["PK", "proof"])
            msg = b""
            fn = "PopVerify"
        else:
            pk, msg, sig = _args(a, k, ["PK", "message", "signature"])
            fn = "Verify"
        if not (_b(pk) and _b(msg) and _b(sig)):
            return
        case = {"fn": fn, "suite": suite, "pk": pk, "msg": msg, "sig": sig, "sk": KNOWN_SK.get(pk)}
        if not _total(rec, fn, suite, res, exc, case):
            return
        exp, why = expected_verify(suite, pk, msg, sig, pop)
        rec.path("%s:%s" % (fn, why))
        _unsafe(rec, fn, suite, why, res, case)
        if exp is None:
            rec.event("verify:unjudged(unknown-sk)")
            return
        rec.check("M-bls.verify", res == exp, "verify", "%s returned %r, expected %r (%s)" % (fn, res, exp, why), case=case,
                  facts={"fn": fn, "kind": "false-accept" if res else "false-reject", "why": why, "suite": suite}, expected=exp, observed=res)
    return h


def expected_aggverify(suite, pks, msgs, sig):
    if len(pks) < 1 or len(pks) != len(msgs):
        return False, "precondition-count"
    if any(len(p) != 48 or not m_key_validate(p) for p in pks):
        return False, "invalid-key"
    if kind_of(suite) == "basic" and len(set(msgs)) != len(msgs):
        return False, "basic-duplicate-message"
    if len(sig) != 96:
        return False, "sig-length"
    ok, S = m_sig_valid(sig)
    if not ok:
        return False, "invalid-sig"
    sks = [KNOWN_SK.get(p) for p in pks]
    if any(s is None for s in sks):
        return None, "unknown-sk"
    acc = None
    for sk, m in zip(sks, msgs):
        acc = E2.add(acc, m_sign_point(suite, sk, m))
    return (acc == S), ("sum" if acc == S else "not-sum")


def h_aggverify(suite, a, k, res, exc):
    rec = core.cur()
    pks, msgs, sig = _args(a, k, ["PKs", "messages", "signature"])
    try:
        pks, msgs = list(pks), list(msgs)
    except Exception:
        return
    if not (all(_b(p) for p in pks) and all(_b(m) for m in msgs) and _b(sig)):
        return
    case = {"fn": "AggregateVerify", "suite": suite, "pks": pks, "msgs": msgs, "sig": sig, "sks": [KNOWN_SK.get(p) for p in pks]}
    if not _total(rec, "AggregateVerify", suite, res, exc, case):
        return
    exp, why = expected_aggverify(suite, pks, msgs, sig)
    rec.path("AggregateVerify:%s" % why)
    _unsafe(rec, "AggregateVerify", suite, why, res, case)
    if exp is None:
        rec.event("aggverify:unjudged(unknown-sk)")
        return
    rec.check("M-bls.aggverify", res == exp, "aggverify", "AggregateVerify returned %r, expected %r (%s)" % (res, exp, why), case=case,
              facts={"fn": "AggregateVerify", "kind": "false-accept" if res else "false-reject", "why": why, "suite": suite}, expected=exp, observed=res)


def expected_fastaggverify(pks, msg, sig, suite="pop"):
    if len(pks) < 1:
        return False, "precondition-count"
    if any(len(p) != 48 or not m_key_validate(p) for p in pks):
        return False, "invalid-key"
    if len(sig) != 96:
        return False, "sig-length"
    ok, S = m_sig_valid(sig)
    if not ok:
        return False, "invalid-sig"
    sks = [KNOWN_SK.get(p) for p in pks]
    if any(s is None for s in sks):
        return None, "unknown-sk"
    tot = sum(sks) % R
    if tot == 0:
        return False, "aggregate-key-identity"
    sp = sp_of(suite)
    Hm = cached(("hp", suite, msg), lambda: MB.hash_point(msg, sp.dst, sp.H))
    expS = E2.mul(Hm, tot)
    return (expS == S), ("sum" if expS == S else "not-sum")


def h_fastaggverify(suite, a, k, res, exc):
    rec = core.cur()
    pks, msg, sig = _args(a, k, ["PKs", "message", "signature"])
    try:
        pks = list(pks)
    except Exception:
        return
    if not (all(_b(p) for p in pks) and _b(msg) and _b(sig)):
        return
    case = {"fn": "FastAggregateVerify", "suite": suite, "pks": pks, "msg": msg, "sig": sig, "sks": [KNOWN_SK.get(p) for p in pks]}
    if not _total(rec, "FastAggregateVerify", suite, res, exc, case):
        return
    exp, why = expected_fastaggverify(pks, msg, sig, suite)
    rec.path("FastAggregateVerify:%s" % why)
    _unsafe(rec, "FastAggregateVerify", suite, why, res, case)
    if exp is None:
        rec.event("fastaggverify:unjudged(unknown-sk)")
        return
    rec.check("M-bls.fastaggverify", res == exp, "fastaggverify", "FastAggregateVerify returned %r, expected %r (%s)" % (res, exp, why), case=case,
              facts={"fn": "FastAggregateVerify", "kind": "false-accept" if res else "false-reject", "why": why}, expected=exp, observed=res)


HANDLERS = {
    "SkToPk": h_sktopk, "Sign": _h_sign(False), "PopProve": _h_sign(True), "KeyGen": h_keygen, "Aggregate": h_aggregate,
    "KeyValidate": h_keyvalidate, "Verify": _h_verify(False), "PopVerify": _h_verify(True),
    "AggregateVerify": h_aggverify, "FastAggregateVerify": h_fastaggverify,
}


# ------------------------------------------------------------------ M-pair-arg
def h_pairing(a, k, res, exc):
    if not _API_DEPTH[0] or exc is not None:
        return
    rec = core.cur()
    Q, Pp = a[0], a[1]
    try:
        Qa = conv.aff_from_proj(Q, F2)
        Pa = conv.aff_from_proj(Pp, F1)
    except Exception:
        return
    case = {"fn": "pairing", "Q": [list(conv.el(c)) for c in Q], "P": [list(conv.el(c)) for c in Pp]}
    okQ = Qa is None or (E2.on_curve(Qa) and in_subgroup(E2, Qa))
    okP = Pa is not None and E1.on_curve(Pa) and in_subgroup(E1, Pa)
    why = []
    if not okQ:
        why.append("G2 argument off-curve or outside the subgroup")
    if not okP:
        why.append("G1 argument is the identity, off-curve or outside the subgroup")
    rec.check("M-pair-arg", okQ and okP, "pair-arg", "pairing evaluated during a ciphersuite call on an unsafe point: " + "; ".join(why), case=case,
              facts={"fn": "pairing", "kind": "unsafe-G2" if not okQ else "unsafe-G1"})


def pre_fastaggverify(a, k):
    """The aggregate key's secret is the sum of the signers' secrets: make it known before the nested Verify."""
    pks = list(_args(a, k, ["PKs", "message", "signature"])[0])
    sks = [KNOWN_SK.get(p) for p in pks if _b(p)]
    if sks and len(sks) == len(pks) and all(s is not None for s in sks) and sum(sks) % R:
        register_key(sum(sks) % R)


PRE = {"FastAggregateVerify": pre_fastaggverify}


# ------------------------------------------------------------------ installation
def _original_bound(cls, name):
    """The library's own method `name`, bound to `cls` - looking through wrappers that were installed on a base class
    (a wrapper is a staticmethod closed over the method bound to THAT base class; a derived suite must run as itself)."""
    import types
    for k in cls.__mro__:
        if name in vars(k):
            v = vars(k)[name]
            f = v.__func__ if isinstance(v, (staticmethod, classmethod)) else v
            orig = getattr(f, "__pv_original__", None)
            if orig is not None:
                f0, is_cm = getattr(orig, "__func__", orig), hasattr(orig, "__self__")
            else:
                f0, is_cm = f, isinstance(v, classmethod)
            return types.MethodType(f0, cls) if is_cm else f0
    return None


def _wrap_api(cls, name, suite):
    bound = _original_bound(cls, name)
    if bound is None:
        return False
    handler = HANDLERS.get(name)

    pre = PRE.get(name)

    def wrapper(*a, **k):
        if _install.PASSTHROUGH[0]:
            return bound(*a, **k)
        _API_DEPTH[0] += 1
        try:
            if pre is not None:
                _safe(lambda: pre(a, k), "M-bls.pre." + name)
            try:
                res = bound(*a, **k)
            except BaseException as e:
                if handler is not None:
                    _safe(lambda: handler(suite, a, k, None, e), "M-bls." + name)
                raise
            if handler is not None:
                _safe(lambda: handler(suite, a, k, res, None), "M-bls." + name)
            return res
        finally:
            _API_DEPTH[0] -= 1

    wrapper.__name__ = name
    wrapper.__pv_original__ = bound
    had = name in cls.__dict__
    old = cls.__dict__.get(name)
    setattr(cls, name, staticmethod(wrapper))
    _PATCHED.append((cls, name, had, old))
    return True


def install(pair_arg=True):
    cs = importlib.import_module("py_ecc.bls.ciphersuites")
    rec = core.CUR
    if _PATCHED:
        return cs
    for cname, suite in SUITE_OF.items():
        cls = getattr(cs, cname, None)
        if cls is None:
            if rec is not None:
                rec.unavailable.append("py_ecc.bls.ciphersuites.%s" % cname)
            continue
        for name in APIS:
            if hasattr(cls, name):
                _wrap_api(cls, name, suite)
    if pair_arg:
        watch("py_ecc.bls.ciphersuites", "pairing", "M-pair-arg", h_pairing)
    return cs


def install_custom(cls, key, kind, H=None, dst=None, pop_tag=None):
    """Put the same monitors around a ciphersuite class derived by a user (another hash function, other tags): the IETF
    procedures are parametrised by exactly these, and the classes expose them as class attributes."""
    import hashlib
    SUITE_PARAMS[key] = MB.SuiteParams(kind, H or hashlib.sha256, dst, pop_tag)
    for name in APIS:
        if hasattr(cls, name):
            _wrap_api(cls, name, key)
    return cls


def custom_suites(cs):
    """Three user-derived suites: another XMD hash function, and (for the third) other tags as well."""
    import hashlib
    out = {}
    defs = [("basic/sha512", "G2Basic", "basic", hashlib.sha512, None, None),
            ("aug/sha3_256", "G2MessageAugmentation", "aug", hashlib.sha3_256, None, None),
            ("pop/sha384+tags", "G2ProofOfPossession", "pop", hashlib.sha384, b"MYAPP_SIG_BLS12381G2_XMD:SHA-384_SSWU_RO_POP_", b"MYAPP_POP_BLS12381G2_XMD:SHA-384_SSWU_RO_POP_")]
    for key, base, kind, H, dst, pop in defs:
        b = getattr(cs, base, None)
        if b is None:
            continue
        attrs = {"xmd_hash_function": H}
        if dst:
            attrs["DST"] = dst
        if pop:
            attrs["POP_TAG"] = pop
        out[key] = install_custom(type("Custom" + base, (b,), attrs), key, kind, H, dst, pop)
    return out


def uninstall():
    for cls, name, had, old in reversed(_PATCHED):
        if had:
            setattr(cls, name, old)
        else:
            delattr(cls, name)
    _PATCHED.clear()
