"""M-secp: monitors on py_ecc.secp256k1 (plain-int Jacobian arithmetic, ECDSA)."""
from __future__ import annotations

from .. import core
from ..model import secp as MS
from ..model.ec import Curve
from ..model.gf import Fld
from .install import watch

MOD = "py_ecc.secp256k1.secp256k1"


class Ctx:
    """The curve the monitors judge against.  Default: SEC 2 constants from the
    model.  W4 installs a small curve here and in the module's globals."""

    def __init__(self, P, A, B, N, G):
        self.P, self.A, self.B, self.N = P, A, B, N
        self.F = Fld(P)
        self.E = Curve(self.F, A, B)
        self.G = G          # model point


CTX = Ctx(MS.P, 0, 7, MS.N, MS.G)


def set_ctx(ctx):
    global CTX
    CTX = ctx


def jac_aff(p):
    """Jacobian triple -> model affine point; y == 0 (the module's marker) or z == 0 -> None."""
    P = CTX.P
    x, y, z = p[0] % P, p[1] % P, p[2] % P
    if y == 0 or z == 0:
        return None
    zi = pow(z, -1, P)
    return ((x * zi * zi % P,), (y * zi * zi * zi % P,))


def represents(res, exp):
    """Does the Jacobian triple ``res`` represent the model point ``exp``?  For exp = identity any
    marker (y == 0 or z == 0) is accepted; a finite exp is compared on the raw coordinates
    (x/z^2, y/z^3), so that a finite result whose y happens to be 0 (possible only for
    arbitrary off-curve coordinates or curves with 2-torsion) is not misread as the marker."""
    P = CTX.P
    x, y, z = res[0] % P, res[1] % P, res[2] % P
    if exp is None:
        return y == 0 or z == 0
    if z == 0:
        return False
    zi = pow(z, -1, P)
    return ((x * zi * zi % P,), (y * zi * zi * zi % P,)) == exp


def pt2(t):
    P = CTX.P
    if t[0] % P == 0 and t[1] % P == 0:
        return None
    return ((t[0] % P,), (t[1] % P,))


def affine_law(Pt, Qt):
    """Formula-level affine law on arbitrary coordinate pairs; 'undef' where the
    chord-and-tangent construction has no meaning (same x, y neither equal nor opposite)."""
    E, F = CTX.E, CTX.F
    if Pt is None:
        return Qt
    if Qt is None:
        return Pt
    if Pt[0] == Qt[0] and Pt[1] != Qt[1] and F.add(Pt[1], Qt[1]) != F.zero:
        return "undef"
    return E.add(Pt, Qt)


EVERY = {"jdouble": 1, "jadd": 1, "inv": 1, "fromjac": 1}
_CNT = {"jdouble": 0, "jadd": 0, "inv": 0, "fromjac": 0}


MUTE = [0]          # > 0 while a driver probes whether a configuration substitution took effect


def substitution_effective(smod, ctx):
    """W4 self-check, run with the monitors muted: do the module's public functions compute on the curve that was
    written into its globals?  (2G, 3G = 2G + G, N*G = identity, (N+1)G = G, G + (-G) = identity, against the model.)
    A refactored module may legitimately keep tables derived from its constants at import time; then the substitution is
    simply not possible and W4 is reported as unavailable - it must not produce violations."""
    E, g, n, p = ctx.E, ctx.G, ctx.N, ctx.P

    def pt(t):
        return None if (t[0] % p == 0 and t[1] % p == 0) else ((t[0] % p,), (t[1] % p,))
    G2 = (g[0][0], g[1][0])
    MUTE[0] += 1
    try:
        two = smod.multiply(G2, 2)
        ok = pt(two) == E.add(g, g)
        ok = ok and pt(smod.add(two, G2)) == E.add(E.add(g, g), g)
        ok = ok and pt(smod.multiply(G2, 3)) == E.add(E.add(g, g), g)
        ok = ok and tuple(smod.multiply(G2, n)) == (0, 0) and pt(smod.multiply(G2, n + 1)) == g
        neg = (G2[0], (-G2[1]) % p)
        ok = ok and tuple(smod.add(G2, neg)) == (0, 0)
        ok = ok and pt(smod.from_jacobian(smod.jacobian_double((G2[0], G2[1], 1)))) == E.add(g, g)
        return bool(ok)
    except Exception:
        return False
    finally:
        MUTE[0] -= 1


def _skip(key):
    if MUTE[0]:
        return True
    _CNT[key] += 1
    return _CNT[key] % EVERY[key] != 0


def _facts(fn, kind, **kw):
    d = {"fn": fn, "kind": kind}
    d.update(kw)
    return d


def h_inv(a, k, res, exc):
    if _skip("inv"):
        return
    rec = core.cur()
    x, n = a[0], a[1]
    if exc is not None or n <= 1:
        return
    if x == 0:
        rec.check("M-secp.inv", res == 0, "inv", "inv(0, n) != 0", case={"fn": "inv", "a": x, "n": n}, facts=_facts("inv", "inv0"))
    elif x % n != 0:
        import math
        if math.gcd(x, n) == 1:
            rec.check("M-secp.inv", 0 <= res < n and (x * res) % n == 1, "inv", "a * inv(a, n) != 1 (mod n)",
                      case={"fn": "inv", "a": x, "n": n}, facts=_facts("inv", "value"))


def h_jdouble(a, k, res, exc):
    if _skip("jdouble"):
        return
    rec = core.cur()
    p = a[0]
    case = {"fn": "jacobian_double", "p": tuple(p)}
    if exc is not None:
        rec.check("M-secp.jdouble", False, "jdouble", "jacobian_double raised %r" % (exc,), case=case, facts=_facts("jacobian_double", "raise"))
        return
    src = jac_aff(p)
    exp = affine_law(src, src)
    rec.path("secp.jacobian_double:" + ("identity" if src is None else "finite"))
    rec.check("M-secp.jdouble", represents(res, exp), "jdouble", "jacobian_double does not represent the affine doubling", case=case,
              facts=_facts("jacobian_double", "value"), expected=exp, observed=jac_aff(res))


def h_jadd(a, k, res, exc):
    if _skip("jadd"):
        return
    rec = core.cur()
    p, q = a[0], a[1]
    case = {"fn": "jacobian_add", "p": tuple(p), "q": tuple(q)}
    if exc is not None:
        rec.check("M-secp.jadd", False, "jadd", "jacobian_add raised %r" % (exc,), case=case, facts=_facts("jacobian_add", "raise"))
        return
    sp, sq = jac_aff(p), jac_aff(q)
    exp = affine_law(sp, sq)
    if exp == "undef":
        return
    if sp is None or sq is None:
        path = "identity-operand"
    elif sp == sq:
        path = "P=Q"
    elif sp[0] == sq[0]:
        path = "P=-Q"
    else:
        path = "generic"
    rec.path("secp.jacobian_add:" + path)
    rec.check("M-secp.jadd", represents(res, exp), "jadd:" + path, "jacobian_add does not represent the affine sum (%s)" % path, case=case,
              facts=_facts("jacobian_add", "value", path=path), expected=exp, observed=jac_aff(res))


def h_jmul(a, k, res, exc):
    if MUTE[0]:
        return
    rec = core.cur()
    p, n = a[0], a[1]
    case = {"fn": "jacobian_multiply", "p": tuple(p), "n": n}
    if exc is not None:
        rec.check("M-secp.jmul", False, "jmul", "jacobian_multiply raised %r" % (exc,), case=case, facts=_facts("jacobian_multiply", "raise"))
        return
    src = jac_aff(p)
    if src is not None and not CTX.E.on_curve(src):
        return
    exp = CTX.E.mul(src, n % CTX.N)
    rec.check("M-secp.jmul", represents(res, exp), "jmul", "jacobian_multiply(P, n) != (n mod N) P", case=case,
              facts=_facts("jacobian_multiply", "value"), expected=exp, observed=jac_aff(res))


def h_fromjac(a, k, res, exc):
    if _skip("fromjac"):
        return
    rec = core.cur()
    p = a[0]
    case = {"fn": "from_jacobian", "p": tuple(p)}
    if exc is not None:
        rec.check("M-secp.fromjac", False, "fromjac", "from_jacobian raised %r" % (exc,), case=case, facts=_facts("from_jacobian", "raise"))
        return
    P = CTX.P
    if p[2] % P == 0:
        exp = (0, 0) if p[1] % P == 0 or True else None
        rec.check("M-secp.fromjac", tuple(res) == (0, 0), "fromjac", "from_jacobian of z = 0 is not (0, 0)", case=case,
                  facts=_facts("from_jacobian", "identity"), observed=tuple(res))
        return
    zi = pow(p[2] % P, -1, P)
    exp = (p[0] * zi * zi % P, p[1] * zi * zi * zi % P)
    rec.check("M-secp.fromjac", tuple(res) == exp, "fromjac", "from_jacobian != (x/z^2, y/z^3)", case=case,
              facts=_facts("from_jacobian", "value"), expected=exp, observed=tuple(res))


def h_add(a, k, res, exc):
    if MUTE[0]:
        return
    rec = core.cur()
    p, q = a[0], a[1]
    case = {"fn": "add", "a": tuple(p), "b": tuple(q)}
    if exc is not None:
        rec.check("M-secp.add", False, "add", "add raised %r" % (exc,), case=case, facts=_facts("add", "raise"))
        return
    sp, sq = pt2(p), pt2(q)
    if (sp is not None and not CTX.E.on_curve(sp)) or (sq is not None and not CTX.E.on_curve(sq)):
        return
    exp = CTX.E.add(sp, sq)
    path = "identity-operand" if sp is None or sq is None else "P=Q" if sp == sq else "P=-Q" if sp[0] == sq[0] else "generic"
    rec.check("M-secp.add", pt2(res) == exp and (exp is not None or tuple(res) == (0, 0)), "add:" + path, "add differs from the affine group law (%s)" % path,
              case=case, facts=_facts("add", "value", path=path), expected=exp, observed=tuple(res))


def h_multiply(a, k, res, exc):
    if MUTE[0]:
        return
    rec = core.cur()
    p, n = a[0], a[1]
    case = {"fn": "multiply", "a": tuple(p), "n": n}
    if exc is not None:
        rec.check("M-secp.multiply", False, "multiply", "multiply raised %r" % (exc,), case=case, facts=_facts("multiply", "raise"))
        return
    sp = pt2(p)
    if sp is not None and not CTX.E.on_curve(sp):
        return
    exp = CTX.E.mul(sp, n % CTX.N)
    rec.check("M-secp.multiply", pt2(res) == exp and (exp is not None or tuple(res) == (0, 0)), "multiply", "multiply(P, n) != (n mod N) P", case=case,
              facts=_facts("multiply", "value"), expected=exp, observed=tuple(res))


def h_privtopub(a, k, res, exc):
    if MUTE[0]:
        return
    rec = core.cur()
    priv = a[0]
    case = {"fn": "privtopub", "priv": bytes(priv)}
    if exc is not None:
        rec.check("M-secp.privtopub", False, "privtopub", "privtopub raised %r" % (exc,), case=case, facts=_facts("privtopub", "raise"))
        return
    d = int.from_bytes(bytes(priv), "big")
    exp = CTX.E.mul(CTX.G, d % CTX.N)
    rec.check("M-secp.privtopub", pt2(res) == exp, "privtopub", "privtopub(d) != d*G", case=case, facts=_facts("privtopub", "value"),
              expected=exp, observed=tuple(res))


def h_nonce(a, k, res, exc):
    if MUTE[0]:
        return
    rec = core.cur()
    msghash, priv = a[0], a[1]
    case = {"fn": "deterministic_generate_k", "msghash": bytes(msghash), "priv": bytes(priv)}
    if exc is not None:
        rec.check("M-secp.nonce", False, "nonce", "deterministic_generate_k raised %r" % (exc,), case=case, facts=_facts("nonce", "raise"))
        return
    exp = MS.nonce(bytes(msghash), bytes(priv))
    rec.check("M-secp.nonce", res == exp, "nonce", "nonce differs from the RFC 6979 HMAC-SHA256 value", case=case,
              facts=_facts("nonce", "value"), expected=exp, observed=res)


CATALOG = {
    "inv": ("inv", "M-secp.inv", h_inv),
    "jdouble": ("jacobian_double", "M-secp.jdouble", h_jdouble),
    "jadd": ("jacobian_add", "M-secp.jadd", h_jadd),
    "jmul": ("jacobian_multiply", "M-secp.jmul", h_jmul),
    "fromjac": ("from_jacobian", "M-secp.fromjac", h_fromjac),
    "add": ("add", "M-secp.add", h_add),
    "multiply": ("multiply", "M-secp.multiply", h_multiply),
    "privtopub": ("privtopub", "M-secp.privtopub", h_privtopub),
    "nonce": ("deterministic_generate_k", "M-secp.nonce", h_nonce),
}


def install(which=None, outermost_only=True):
    ok = {}
    for key, (attr, mon, handler) in CATALOG.items():
        if which is None or key in which:
            # inner activations of jacobian_double/add are interesting too: check every activation
            ok[key] = watch(MOD, attr, mon, handler, outermost_only=key in ("jmul",))
    return ok
