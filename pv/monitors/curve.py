"""M-curve and M-line: monitors on the four curve modules and their line functions.

Handlers are generic over the field: the model field is taken from the element
objects themselves (prime, modulus coefficients), so the same monitors judge
the real curves and the small-field substitutions (W4).  Group-law formulas on
y^2 = x^3 + b do not involve b, so `add/double/neg/multiply/eq` are judged at
formula level on the affine images of arbitrary coordinates; combinations for
which the chord-and-tangent construction is undefined (same x, y neither equal
nor opposite) are skipped.
"""
from __future__ import annotations

from .. import core
from ..model import params
from ..model.ec import Curve, line_affine
from . import field as fmon
from .install import watch

MODULES = {
    "ref.bn128": ("py_ecc.bn128.bn128_curve", "py_ecc.bn128.bn128_pairing", "ref", "bn128"),
    "ref.bls12_381": ("py_ecc.bls12_381.bls12_381_curve", "py_ecc.bls12_381.bls12_381_pairing", "ref", "bls12_381"),
    "opt.bn128": ("py_ecc.optimized_bn128.optimized_curve", "py_ecc.optimized_bn128.optimized_pairing", "opt", "bn128"),
    "opt.bls12_381": ("py_ecc.optimized_bls12_381.optimized_curve", "py_ecc.optimized_bls12_381.optimized_pairing", "opt", "bls12_381"),
}

EVERY = {"outer": 1, "inner": 37, "line": 1}
_CNT = [0]
_DEPTH = [0]          # > 0 while inside a monitored multiply / pairing / miller_loop
_CURVES = {}


def _curve_for(F):
    c = _CURVES.get(id(F))
    if c is None:
        c = Curve(F, F.zero, F.zero)      # b is irrelevant for the group formulas (a = 0)
        _CURVES[id(F)] = c
    return c


def _field_of_point(pt):
    for c in pt:
        return fmon.value_of(c)[0]


def aff(pt, rep):
    """library point -> (F, model affine point or None)"""
    if rep == "ref":
        if pt is None:
            return None, None
        F, x = fmon.value_of(pt[0])
        return F, (x, fmon.value_of(pt[1])[1])
    F, x = fmon.value_of(pt[0])
    y = fmon.value_of(pt[1])[1]
    z = fmon.value_of(pt[2])[1]
    if F.is_zero(z):
        return F, None
    zi = F.inv(z)
    return F, (F.mul(x, zi), F.mul(y, zi))


def affine_law(E, P, Q):
    F = E.F
    if P is None:
        return Q
    if Q is None:
        return P
    if P[0] == Q[0] and P[1] != Q[1] and not F.is_zero(F.add(P[1], Q[1])):
        return "undef"
    return E.add(P, Q)


def _sample():
    _CNT[0] += 1
    return _CNT[0] % (EVERY["inner"] if _DEPTH[0] else EVERY["outer"]) == 0


def _raw(pt):
    if pt is None:
        return None
    out = []
    for c in pt:
        out.append(list(fmon.value_of(c)[1]))
    return out


def _mk(modkey, rep):
    tag = modkey

    def facts(fn, kind, **kw):
        d = {"module": modkey, "fn": fn, "kind": kind}
        d.update(kw)
        return d

    def h_add(a, k, res, exc):
        if not _sample():
            return
        rec = core.cur()
        p1, p2 = a[0], a[1]
        F1, P = aff(p1, rep)
        F2, Q = aff(p2, rep)
        F = F1 or F2
        case = {"fn": "add", "module": modkey, "p1": _raw(p1), "p2": _raw(p2)}
        if F is None:
            rec.check("M-curve.add", exc is None and res is None, "add:" + tag, "add(None, None) is not None", case=case, facts=facts("add", "value", path="identity-operand"))
            return
        E = _curve_for(F)
        exp = affine_law(E, P, Q)
        if exp == "undef":
            return
        path = "identity-operand" if P is None or Q is None else "P=Q" if P == Q else "P=-Q" if P[0] == Q[0] else "generic"
        if P is not None and Q is not None and P == Q and F.is_zero(P[1]):
            if rep == "ref":
                return        # 2-torsion: not on the odd-order curves the property names
            path = "P=Q,y=0"
        rec.path("%s.add:%s" % (modkey, path))
        if exc is not None:
            rec.check("M-curve.add", False, "add:" + tag, "add raised %r (%s)" % (exc, path), case=case, facts=facts("add", "raise", path=path))
            return
        got = aff(res, rep)[1]
        rec.check("M-curve.add", got == exp, "add:" + tag, "add does not represent the affine sum (%s)" % path, case=case,
                  facts=facts("add", "value", path=path), expected=exp, observed=got)

    def h_double(a, k, res, exc):
        if not _sample():
            return
        rec = core.cur()
        p1 = a[0]
        F, P = aff(p1, rep)
        case = {"fn": "double", "module": modkey, "p1": _raw(p1)}
        if F is None:
            rec.check("M-curve.double", exc is None and res is None, "double:" + tag, "double(None) is not None", case=case, facts=facts("double", "value", path="identity"))
            return
        if P is not None and F.is_zero(P[1]) and rep == "ref":
            return
        E = _curve_for(F)
        exp = E.add(P, P)
        rec.path("%s.double:%s" % (modkey, "identity" if P is None else "finite"))
        if exc is not None:
            rec.check("M-curve.double", False, "double:" + tag, "double raised %r" % (exc,), case=case, facts=facts("double", "raise"))
            return
        got = aff(res, rep)[1]
        rec.check("M-curve.double", got == exp, "double:" + tag, "double does not represent the affine doubling", case=case,
                  facts=facts("double", "value"), expected=exp, observed=got)

    def h_neg(a, k, res, exc):
        if not _sample():
            return
        rec = core.cur()
        p1 = a[0]
        if rep == "opt" and p1 is None:
            return
        F, P = aff(p1, rep)
        case = {"fn": "neg", "module": modkey, "p1": _raw(p1)}
        if exc is not None:
            rec.check("M-curve.neg", False, "neg:" + tag, "neg raised %r" % (exc,), case=case, facts=facts("neg", "raise"))
            return
        if F is None:
            rec.check("M-curve.neg", res is None, "neg:" + tag, "neg(None) is not None", case=case, facts=facts("neg", "value"))
            return
        exp = _curve_for(F).neg(P)
        got = aff(res, rep)[1]
        rec.check("M-curve.neg", got == exp, "neg:" + tag, "neg does not represent (x, -y)", case=case, facts=facts("neg", "value"), expected=exp, observed=got)

    def h_multiply(a, k, res, exc):
        rec = core.cur()
        p1, n = a[0], a[1]
        if type(n) is not int or n < 0:
            return
        F, P = aff(p1, rep)
        case = {"fn": "multiply", "module": modkey, "p1": _raw(p1), "n": n}
        if exc is not None:
            rec.check("M-curve.multiply", False, "multiply:" + tag, "multiply raised %r" % (exc,), case=case, facts=facts("multiply", "raise"))
            return
        if F is None:
            rec.check("M-curve.multiply", res is None, "multiply:" + tag, "multiply(None, n) is not None", case=case, facts=facts("multiply", "value"))
            return
        if P is not None and rep == "ref" and F.is_zero(P[1]):
            return
        exp = _curve_for(F).mul(P, n)
        got = aff(res, rep)[1]
        rec.check("M-curve.multiply", got == exp, "multiply:" + tag, "multiply(P, n) is not the n-fold sum", case=case,
                  facts=facts("multiply", "value"), expected=exp, observed=got)

    def h_eq(a, k, res, exc):
        if not _sample():
            return
        rec = core.cur()
        p1, p2 = a[0], a[1]
        case = {"fn": "eq", "module": modkey, "p1": _raw(p1), "p2": _raw(p2)}
        if exc is not None:
            rec.check("M-curve.eq", False, "eq:" + tag, "eq raised %r" % (exc,), case=case, facts=facts("eq", "raise"))
            return
        P, Q = aff(p1, rep)[1], aff(p2, rep)[1]
        path = "both-inf" if P is None and Q is None else "one-inf" if P is None or Q is None else "finite"
        rec.path("%s.eq:%s" % (modkey, path))
        rec.check("M-curve.eq", res is (P == Q) or res == (P == Q), "eq:" + tag, "eq(p1, p2) is %r but the points are %s" % (res, "equal" if P == Q else "different"),
                  case=case, facts=facts("eq", "value", path=path), expected=P == Q, observed=res)

    def h_on_curve(a, k, res, exc):
        if not _sample():
            return
        rec = core.cur()
        pt, b = a[0], a[1]
        case = {"fn": "is_on_curve", "module": modkey, "p1": _raw(pt), "b": list(fmon.value_of(b)[1])}
        if exc is not None:
            rec.check("M-curve.on_curve", False, "on_curve:" + tag, "is_on_curve raised %r" % (exc,), case=case, facts=facts("is_on_curve", "raise"))
            return
        F, P = aff(pt, rep)
        if P is None:
            exp = True
        else:
            bv = fmon.value_of(b)[1]
            exp = F.mul(P[1], P[1]) == F.add(F.mul(F.mul(P[0], P[0]), P[0]), bv)
        rec.check("M-curve.on_curve", bool(res) == exp, "on_curve:" + tag, "is_on_curve is %r, the curve equation says %r" % (res, exp), case=case,
                  facts=facts("is_on_curve", "value"), expected=exp, observed=res)

    def h_twist(a, k, res, exc):
        if not _sample():
            return
        rec = core.cur()
        pt = a[0]
        if pt is None and rep == "opt":
            return
        case = {"fn": "twist", "module": modkey, "p1": _raw(pt)}
        if exc is not None:
            rec.check("M-curve.twist", False, "twist:" + tag, "twist raised %r" % (exc,), case=case, facts=facts("twist", "raise"))
            return
        F, Q = aff(pt, rep)
        S = params.suite(MODULES[modkey][3])
        if F is not None and (F.p != S.p or F.k != 2 or F.mc != S.F2.mc):
            return                     # substituted field: the twist constants belong to the real tower
        exp = S.twist(Q)
        got = aff(res, rep)[1]
        rec.check("M-curve.twist", got == exp, "twist:" + tag, "twist differs from the model embedding E'(Fp2) -> E(Fp12)", case=case,
                  facts=facts("twist", "value"), expected=exp, observed=got)

    def h_line(a, k, res, exc):
        _CNT[0] += 1
        if _CNT[0] % (EVERY["inner"] if _DEPTH[0] else EVERY["line"]):
            return
        rec = core.cur()
        P1, P2, T = a[0], a[1], a[2]
        case = {"fn": "linefunc", "module": modkey, "P1": _raw(P1), "P2": _raw(P2), "T": _raw(T)}
        F, A = aff(P1, rep)
        _, B = aff(P2, rep)
        _, C = aff(T, rep)
        if A is None or B is None or C is None:
            return
        E = _curve_for(F)
        if A[0] == B[0] and A[1] != B[1] and not F.is_zero(F.add(A[1], B[1])):
            return
        if A == B and F.is_zero(A[1]):
            return
        path = "chord" if A[0] != B[0] else "tangent" if A[1] == B[1] else "vertical"
        rec.path("%s.linefunc:%s" % (modkey, path))
        if exc is not None:
            rec.check("M-line", False, "line:" + tag, "linefunc raised %r (%s)" % (exc, path), case=case, facts=facts("linefunc", "raise", path=path))
            return
        exp = line_affine(E, A, B, C)
        if rep == "ref":
            got = fmon.value_of(res)[1]
        else:
            num, den = fmon.value_of(res[0])[1], fmon.value_of(res[1])[1]
            if F.is_zero(den):
                rec.check("M-line", False, "line:" + tag, "linefunc denominator is zero for finite operands (%s)" % path, case=case, facts=facts("linefunc", "zero-den", path=path))
                return
            got = F.div(num, den)
        rec.check("M-line", got == exp, "line:" + tag, "linefunc differs from the affine line function (%s)" % path, case=case,
                  facts=facts("linefunc", "value", path=path), expected=exp, observed=got)

    return {"add": h_add, "double": h_double, "neg": h_neg, "multiply": h_multiply, "eq": h_eq, "is_on_curve": h_on_curve, "twist": h_twist, "linefunc": h_line}


def _depth_wrap(modname, attr):
    """multiply / pairing / miller_loop raise the 'inner' flag for the calls they make."""
    import importlib
    import sys
    mod = sys.modules.get(modname) or importlib.import_module(modname)
    f = getattr(mod, attr, None)
    if f is None:
        return
    import functools
    from .install import rebind

    @functools.wraps(f)
    def w(*a, **k):
        _DEPTH[0] += 1
        try:
            return f(*a, **k)
        finally:
            _DEPTH[0] -= 1
    w.__pv_original__ = getattr(f, "__pv_original__", f)
    rebind(f, w)


_DONE = set()


def install(which=None, fns=None, every_outer=1, every_inner=37, every_line=1):
    EVERY["outer"], EVERY["inner"], EVERY["line"] = every_outer, every_inner, every_line
    for modkey, (cmod, pmod, rep, suite) in MODULES.items():
        if which is not None and modkey not in which:
            continue
        if modkey in _DONE:
            continue
        _DONE.add(modkey)
        hs = _mk(modkey, rep)
        for fn in ("add", "double", "neg", "eq", "is_on_curve", "twist", "multiply"):
            if fns is not None and fn not in fns:
                continue
            watch(cmod, fn, "M-curve." + fn, hs[fn], outermost_only=(fn == "multiply"))
        if fns is None or "linefunc" in fns:
            watch(pmod, "linefunc", "M-line", hs["linefunc"], outermost_only=False)
        # depth markers (installed after the monitors so that they wrap them)
        _depth_wrap(cmod, "multiply")
        _depth_wrap(pmod, "miller_loop")
