"""Installing monitors on the real functions without editing the repository.

Python resolves ``add``, ``pairing``, ``hkdf_expand`` ... through module globals
at call time, and ``from .x import f`` copies the binding into the importing
module.  ``rebind`` therefore sweeps every loaded py_ecc module and replaces
each module-level name bound to the original function.
"""
from __future__ import annotations

import functools
import importlib
import sys
import traceback

from .. import core

ALL_MODULES = [
    "py_ecc", "py_ecc.utils", "py_ecc.fields", "py_ecc.fields.field_elements",
    "py_ecc.fields.optimized_field_elements", "py_ecc.fields.field_properties",
    "py_ecc.bn128", "py_ecc.bn128.bn128_curve", "py_ecc.bn128.bn128_pairing",
    "py_ecc.bls12_381", "py_ecc.bls12_381.bls12_381_curve", "py_ecc.bls12_381.bls12_381_pairing",
    "py_ecc.optimized_bn128", "py_ecc.optimized_bn128.optimized_curve", "py_ecc.optimized_bn128.optimized_pairing",
    "py_ecc.optimized_bls12_381", "py_ecc.optimized_bls12_381.optimized_curve",
    "py_ecc.optimized_bls12_381.optimized_pairing", "py_ecc.optimized_bls12_381.optimized_swu",
    "py_ecc.optimized_bls12_381.optimized_clear_cofactor", "py_ecc.optimized_bls12_381.constants",
    "py_ecc.bls", "py_ecc.bls.ciphersuites", "py_ecc.bls.constants", "py_ecc.bls.g2_primitives",
    "py_ecc.bls.hash", "py_ecc.bls.hash_to_curve", "py_ecc.bls.point_compression",
    "py_ecc.secp256k1", "py_ecc.secp256k1.secp256k1",
]


def import_all():
    mods = {}
    for name in ALL_MODULES:
        try:
            mods[name] = importlib.import_module(name)
        except ImportError:
            pass
    return mods


def loaded_modules():
    return [m for n, m in list(sys.modules.items()) if (n == "py_ecc" or n.startswith("py_ecc.")) and m is not None]


def rebind(original, replacement):
    n = 0
    for m in loaded_modules():
        for k, v in list(vars(m).items()):
            if v is original:
                setattr(m, k, replacement)
                n += 1
    return n


_INSTALLED = {}   # (module name, attr) -> (original, wrapper)
PASSTHROUGH = [False]   # True while several threads call the library: the monitors' bookkeeping (activation depth, caches, counters) is
                        # single-threaded, so wrappers hand calls straight through and the thread phase is judged by value comparison
HARNESS_ERRORS = []


def _safe(handler, monitor, *a):
    try:
        handler(*a)
    except Exception as e:  # a failing monitor is a harness problem: inconclusive, never a violation
        rec = core.CUR
        msg = "monitor %s raised %r\n%s" % (monitor, e, traceback.format_exc()[-800:])
        if rec is not None and len(rec.inconclusive) < 5:
            rec.inconclusive.append(msg)
        HARNESS_ERRORS.append(msg)


def watch(modname, attr, monitor, handler, outermost_only=True):
    """Wrap module-level function ``modname.attr``; ``handler(args, kwargs, result, exc)``
    is called after every (outermost) activation.  Returns False if the target
    does not exist (recorded as observer_unavailable)."""
    key = (modname, attr)
    if key in _INSTALLED:
        return True
    mod = sys.modules.get(modname) or importlib.import_module(modname)
    func = getattr(mod, attr, None)
    if func is None or not callable(func):
        rec = core.CUR
        if rec is not None:
            rec.unavailable.append("%s.%s" % (modname, attr))
        return False
    depth = [0]

    @functools.wraps(func)
    def wrapper(*a, **k):
        if PASSTHROUGH[0]:
            return func(*a, **k)
        depth[0] += 1
        try:
            try:
                res = func(*a, **k)
            except BaseException as e:
                if depth[0] == 1 or not outermost_only:
                    _safe(handler, monitor, a, k, None, e)
                raise
            if depth[0] == 1 or not outermost_only:
                _safe(handler, monitor, a, k, res, None)
            return res
        finally:
            depth[0] -= 1

    wrapper.__pv_original__ = func
    rebind(func, wrapper)
    _INSTALLED[key] = (func, wrapper)
    return True


def original(modname, attr):
    """The unwrapped function (for drivers that must bypass a monitor)."""
    key = (modname, attr)
    if key in _INSTALLED:
        return _INSTALLED[key][0]
    return getattr(sys.modules[modname], attr)


def uninstall_all():
    for (modname, attr), (func, wrapper) in list(_INSTALLED.items()):
        rebind(wrapper, func)
    _INSTALLED.clear()
