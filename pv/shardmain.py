"""Child process: run one shard of one property and write its report."""
from __future__ import annotations

import faulthandler
import json
import sys

from . import core


def _die_with_parent():
    """A shard whose parent (pv.cli) is gone must not keep burning a core (e.g. after the parent was killed)."""
    import os
    import threading
    import time
    parent = os.getppid()

    def watch():
        while True:
            time.sleep(5)
            if os.getppid() != parent:
                os._exit(3)
    threading.Thread(target=watch, daemon=True).start()


def main(argv):
    pid, tier, seed, shard, nshards, out = argv[0], argv[1], int(argv[2]), int(argv[3]), int(argv[4]), argv[5]
    faulthandler.enable()
    sys.setrecursionlimit(100000)
    _die_with_parent()
    from .cli import load_prop
    mod = load_prop(pid)
    rec = core.set_current(core.Rec(pid, tier, seed, shard, nshards))
    rec.partial_path = out + ".partial"
    from .monitors import observe
    from .monitors.install import import_all
    import_all()
    observing = observe.install(pid)          # before any monitor wraps a function
    try:
        mod.run(rec)
    except Exception as e:
        # An exception escaping from library code on an input the driver considers valid is a violation (the property
        # promises a value); an exception raised by the harness itself is a harness problem and stays a crash (inconclusive).
        import os
        import traceback
        tb = traceback.extract_tb(e.__traceback__)
        repo = os.path.abspath(os.environ.get("PV_REPO", "/repo")) + os.sep
        inner = tb[-1].filename if tb else ""
        if os.path.abspath(inner).startswith(repo):
            where = "".join(traceback.format_list(tb[-4:]))
            rec.check("B-driver.exception", False, "library-exception", "the workload was aborted by %r raised inside the library:\n%s" % (e, where[-900:]),
                      facts={"kind": "library-exception", "exception": type(e).__name__, "function": tb[-1].name})
        else:
            raise
    if tier == "thorough" and getattr(mod, "ATTACH", True):
        # W2 scenarios and W3 (the repository's own tests) under this property's monitor families
        from .scope import FAMILIES
        if FAMILIES.get(pid):
            from .props import attach
            try:
                attach.attach(rec, pid)
            except Exception as e:
                rec.notes["attach_error"] = repr(e)
    rep = rec.report()
    rep["lines"] = observe.report() if observing else None
    json.dump(rep, open(out, "w"))
    return 0


def replay(pid, path):
    from .cli import load_prop
    mod = load_prop(pid)
    v = json.load(open(path))
    rec = core.set_current(core.Rec(pid, v.get("tier", "quick"), v.get("seed", 0), 0, 1))
    if v.get("case") is None or not hasattr(mod, "replay") or getattr(mod, "REPLAY_BY_SHARD", False):
        # deterministic re-run of the shard that produced the violation (same seed, same tier)
        shard = v.get("shard", 0)
        if shard is None or shard < 0:
            print("replay: this violation was found by the offline checker over all shards; re-run ./check %s with VERIF_SEED=%s" % (pid, v.get("seed", 0)))
            return 2
        tier = v.get("tier", "quick")
        rec = core.set_current(core.Rec(pid, tier, v.get("seed", 0), shard, mod.shards(tier)))
        from .monitors.install import import_all
        import_all()
        print("replay: re-running shard %d of %s (tier %s, seed %s)" % (shard, pid, tier, v.get("seed", 0)))
        mod.run(rec)
        same = [x for x in rec.violations if x["monitor"] == v.get("monitor")]
        if same:
            for x in same[:3]:
                print("  %s [%s] %s" % (x["monitor"], x["class"], x["what"][:400]))
            print("VIOLATION property=%s replay=%s" % (pid, path))
            return 1
        print("replay: property %s held on the re-run shard (%d oracle evaluations)" % (pid, rec.evals))
        return 0 if rec.evals else 2
    mod.replay(rec, core.from_full_json(v["case"]))
    if rec.violation_count:
        for x in rec.violations[:3]:
            print("  %s [%s] %s" % (x["monitor"], x["class"], x["what"][:400]))
        print("VIOLATION property=%s replay=%s" % (pid, path))
        return 1
    print("replay: property %s held on the recorded case (%d oracle evaluations)" % (pid, rec.evals))
    return 0 if rec.evals else 2


if __name__ == "__main__":
    sys.exit(main(sys.argv[1:]))
