#!/usr/bin/env python3
"""Mutant catalogue and runner (validation of the monitors, DESIGN.md section 6).

Each mutant is a small textual change to a file of ethereum/py_ecc that breaks one
property.  The runner applies it in a scratch git worktree of /repo under /tmp
(never in /repo), optionally runs the repository's own tests there, runs the quick
checks of the targeted properties with PV_REPO pointing at the worktree, records
caught / missed in mutants/results.json, writes mutants/<name>.diff and removes the
worktree.

  python3 tools/mutants.py list
  python3 tools/mutants.py run [-j N] [--tests] [--tier quick] [name-or-prop ...]
"""
import concurrent.futures
import json
import os
import re
import subprocess
import sys
import tempfile
import time

HERE = os.path.normpath(os.path.join(os.path.dirname(os.path.abspath(__file__)), ".."))
sys.path.insert(0, os.path.join(HERE, "mutants"))
from catalogue import MUTANTS  # noqa: E402


def sh(cmd, **kw):
    return subprocess.run(cmd, shell=True, capture_output=True, text=True, **kw)


def run_one(m, tests, tier, jobs, tests_only=False):
    name = m["name"]
    wt = tempfile.mkdtemp(prefix="pvmut_%s_" % name)
    os.rmdir(wt)
    r = sh("git -C /repo worktree add -q --detach %s HEAD" % wt)
    if r.returncode:
        return {"name": name, "error": r.stderr}
    out = {"name": name, "props": m["props"], "note": m.get("note", "")}
    try:
        for ed in m["edits"]:
            path = os.path.join(wt, ed["file"])
            s = open(path).read()
            cnt = s.count(ed["old"])
            want = ed.get("count", 1)
            if cnt != want:
                out["error"] = "pattern occurs %d times in %s (wanted %d)" % (cnt, ed["file"], want)
                return out
            open(path, "w").write(s.replace(ed["old"], ed["new"]))
        diff = sh("git -C %s diff" % wt).stdout
        open(os.path.join(HERE, "mutants", name + ".diff"), "w").write(diff)
        r = sh("cd %s && PYTHONPATH=%s /venv/bin/python -c 'import py_ecc, py_ecc.bls, py_ecc.secp256k1, py_ecc.bn128, py_ecc.bls12_381, py_ecc.optimized_bn128'" % (wt, wt))
        out["imports"] = r.returncode == 0
        if tests:
            t0 = time.time()
            r = sh("cd %s && PYTHONPATH=%s /venv/bin/python -m pytest -q -x -p no:cacheprovider --timeout=900 tests 2>&1 | tail -3" % (wt, wt))
            out["repo_tests"] = r.stdout.strip().splitlines()[-1] if r.stdout.strip() else "?"
            out["repo_tests_pass"] = " failed" not in out["repo_tests"] and " error" not in out["repo_tests"]
            out["repo_tests_s"] = round(time.time() - t0)
        if tests_only:
            return out
        res = {}
        for pid in m["props"]:
            t0 = time.time()
            r = sh("PV_REPO=%s VERIF_JOBS=%d %s/check %s --tier %s" % (wt, jobs, HERE, pid, tier))
            viol = re.findall(r"^VIOLATION property=(\S+)", r.stdout, re.M)
            detail = [l.strip() for l in r.stdout.splitlines() if l.startswith("  ")][:3]
            res[pid] = {"exit": r.returncode, "violation": bool(viol), "wall_s": round(time.time() - t0, 1), "detail": detail,
                        "inconclusive": [l for l in r.stdout.splitlines() if l.startswith("INCONCLUSIVE")][:2]}
        out["checks"] = res
        out["caught_by"] = [p for p, v in res.items() if v["exit"] == 1 and v["violation"]]
        out["caught"] = bool(out["caught_by"])
    finally:
        sh("git -C /repo worktree remove --force %s" % wt)
        sh("rm -rf %s" % wt)
    return out


def main(argv):
    if not argv or argv[0] == "list":
        for m in MUTANTS:
            print("%-34s %-12s %s" % (m["name"], ",".join(m["props"]), m.get("note", "")))
        return 0
    args = argv[1:]
    jobs, tests, tier, sel, tests_only = 2, False, "quick", [], False
    while args:
        a = args.pop(0)
        if a == "-j":
            jobs = int(args.pop(0))
        elif a == "--tests":
            tests = True
        elif a == "--tests-only":
            tests = tests_only = True
        elif a == "--tier":
            tier = args.pop(0)
        else:
            sel.append(a)
    ms = [m for m in MUTANTS if not sel or m["name"] in sel or any(p in sel for p in m["props"])]
    per = max(2, 16 // max(1, jobs))
    respath = os.path.join(HERE, "mutants", "results.json")
    results = json.load(open(respath)) if os.path.exists(respath) else {}
    with concurrent.futures.ThreadPoolExecutor(max_workers=jobs) as ex:
        futs = {ex.submit(run_one, m, tests, tier, per, tests_only): m for m in ms}
        for f in concurrent.futures.as_completed(futs):
            o = f.result()
            prev = results.get(o["name"], {})
            if tests_only and "error" not in o:
                for k in ("checks", "caught_by", "caught"):
                    if k in prev:
                        o[k] = prev[k]
            if "repo_tests" not in o and "repo_tests" in prev:
                for k in ("repo_tests", "repo_tests_pass", "repo_tests_s"):
                    if k in prev:
                        o[k] = prev[k]
            results[o["name"]] = o
            print("%-34s %s %s %s" % (o["name"], "ERROR " + o["error"] if "error" in o else ("CAUGHT by " + ",".join(o["caught_by"]) if o.get("caught") else "MISSED"),
                                      o.get("repo_tests", ""), {p: (v["exit"], v["wall_s"]) for p, v in o.get("checks", {}).items()}))
            sys.stdout.flush()
            json.dump(dict(sorted(results.items())), open(respath, "w"), indent=1)
    return 0


if __name__ == "__main__":
    sys.exit(main(sys.argv[1:]))
