#!/bin/sh
# tools/run_all.sh [quick|thorough] [IDs...] : run checks one after another, print one summary line each
TIER="${1:-quick}"; shift
IDS="$*"
[ -z "$IDS" ] && IDS="C01 C02 C03 C04 C05 C06 C07 C08 C09 C10 C11 C12 C13 C14 C15 C16 C17 C18 C19 C20"
HERE="$(cd "$(dirname "$0")/.." && pwd)"
for id in $IDS; do
  s=$(date +%s)
  out=$("$HERE/check" "$id" --tier "$TIER" 2>&1); rc=$?
  e=$(date +%s)
  echo "== $id tier=$TIER exit=$rc wall=$((e-s))s :: $(echo "$out" | grep -E "^(C[0-9]+ tier|VIOLATION|INCONCLUSIVE|KNOWN-FINDING|NOTE)" | cut -c1-220 | tr '\n' ';')"
done
