#!/bin/sh
# Offline setup: the harness is pure Python; icontract (runtime contracts) is put beside it
# from the offline wheelhouse.  ./check repeats this if .deps is missing.
HERE="$(cd "$(dirname "$0")/.." && pwd)"
PY="${PV_PYTHON:-/venv/bin/python}"
if [ ! -d "$HERE/.deps/icontract" ]; then
  PIP_NO_INDEX=1 "$PY" -m pip install -q --no-index --find-links /opt/veriftools/wheels \
      --target "$HERE/.deps" icontract || echo "warning: icontract not installed (plain wrappers are used instead)"
fi
PYTHONPATH="/repo:$HERE:$HERE/.deps" "$PY" -c "import py_ecc, pv.cli; print('pv ready; py_ecc from', py_ecc.__file__)"
