#!/usr/bin/env python3
"""Regenerates /verif/MANIFEST.json from the table below (run: python3 tools/gen_manifest.py)."""
import json, os
HERE = os.path.normpath(os.path.join(os.path.dirname(os.path.abspath(__file__)), ".."))

COMMON_NOTE = ("Trusted base: CPython ints/pow/hashlib; the independent models in pv/model (self-tested at the start of every run "
               "against published vectors and algebraic identities; a failing self-test gives exit 2, never a violation). "
               "Decides only the executions produced: 'held on K observed executions covering these classes', not a proof.")

CHECKS = {
 "C01": ("boundary oracle on SkToPk -> Sign -> Verify and PopProve -> PopVerify round trips (must be exactly True), contract monitors on the ciphersuite methods for ValidationError refusals and KeyGen range/value, fault injection at hkdf_expand to drive the KeyGen retry loop",
         "4.C01", "every honest round trip observed must verify; invalid keys of 18 kinds must be refused by three entry points in three suites; keys per bit length 1..255 and boundary keys, messages at SHA-256 block boundaries; the retry loop is reached only through injected faults"),
 "C02": ("analytic reference-model monitor wrapped around Verify / PopVerify: with the secret key known, True iff the 96 bytes equal the model's canonical signature; driven with 18 candidate classes per base case (other key/message/suite, PoP<->signature, AUG prefix, -S, 2S, S+torsion, identity, bit/flag flips, swaps, lengths)",
         "4.C02", "the oracle recomputes the truth for every candidate with independent arithmetic, so any accepted non-canonical string or rejected canonical one is seen; reach of decode / subgroup / pairing stages is counted"),
 "C03": ("reference-model monitors wrapped around Aggregate / AggregateVerify / FastAggregateVerify: group-sum oracle with known secret keys and explicit preconditions, over signer sets with every single-element perturbation, permutations and bracketings",
         "4.C03", "expected answers are recomputed in the model for whatever the perturbation produced, so no perturbation can false-alarm; Aggregate outputs are compared byte-for-byte, across orders/groupings and with repeated / cancelling entries; perturbations include an identity key paired with an unsigned message and a signer key moved out of the subgroup by a small-order point"),
 "C04": ("totality contract (bool, no exception) and validity oracle on the five verification entry points under hostile byte strings, plus a pairing-argument monitor wrapped around `pairing` as called by the ciphersuites (every argument pair checked on-curve / in-subgroup / non-identity in model arithmetic)",
         "4.C04", "grid of lengths, flag combinations, coordinate classes (incl. non-reduced x + p), cofactor-order components, list positions and list shapes; key sets whose cofactor components cancel, valid keys moved out of the subgroup with the honest signature, identity keys among honest signers; the argument monitor sees a dropped subgroup check even when the returned boolean stays False"),
 "C09": ("reference-model monitors wrapped around SkToPk / Sign / PopProve / Aggregate comparing output bytes with an independent end-to-end IETF pipeline model (XMD, hash_to_field, straight-line SSWU, isogeny, h_eff, affine scalar multiplication, ZCash encoding), anchored by published vectors",
         "4.C09", "every output observed is compared byte-for-byte with the model for keys of every bit length, boundary keys and block-boundary messages in the three suites"),
 "C10": ("stage-by-stage reference-model monitors on hash_to_field, optimized_swu_G1/G2, iso_map_G1/G2, map_to_curve, clear_cofactor, hash_to_G1/G2 (RFC 9380 straight-line SSWU with inv0, rational isogeny maps, [h_eff]P, subgroup membership), with all eight outcomes of the G2 square-root search and the exceptional inputs required",
         "4.C10", "each stage of each observed execution is compared with the model so the failing stage is named; exceptional u, zero parts, sgn0 corner cases and six hash functions are driven deliberately"),
 "C11": ("reference-model monitors on compress/decompress_G1/G2 and the byte helpers against an independent ZCash-format model (accept => same point, on curve, re-encoding identical; model rejects => ValueError), driver-side round-trip oracle, chosen-y points by cube-root construction, flag x coordinate-class grids, bit flips",
         "4.C11", "tens of thousands of words per run incl. every flag combination against every coordinate class; points with chosen y (around (p-1)/2, y_im = 0, y_re = 0) that random sampling never produces; one known finding (G1 x = 0) is classified by mechanism"),
 "C17": ("reference-model monitors on subgroup_check ([r]P = O in the model) and clear_cofactor_G1/G2 ([h_eff]P, result in subgroup) over k*G, k*G+T and T for every small prime factor of both cofactors and large-cofactor points, in random projective rescalings; constants compared with values derived from the curve parameter",
         "4.C17", "points with a non-trivial component of each prime order dividing the cofactors are constructed explicitly, so a test that multiplies by the wrong order or skips the check is exposed"),
 "C05": ("bilinearity / additivity / negation / order / infinity identities evaluated in the model's own GF(p^12) arithmetic on values returned by the real pairing of each of the four implementations (monitor wrapped around each pairing records the calls); off-curve arguments must raise",
         "4.C05", "identities use boundary scalars (0, 1, 2, r-1, r, r+1) and random 255-bit ones, random base points, optimized operands in random projective rescalings and four infinity representatives; evaluated outside the library's FQ12 so a field defect cannot mask a pairing defect"),
 "C12": ("differential monitor: optimized vs reference pairing on identical affine inputs (coefficient-wise), split-final-exponentiation products recomputed in the model, final_exponentiate / exp_by_p against the model's plain square-and-multiply on arbitrary FQ12 elements",
         "4.C12", "reference and optimized implementations are run side by side on random subgroup points (optimized operands rescaled); products of 1..6 Miller values incl. verifier shapes and identity factors; FQ12 elements 0, 1, sparse, subfield, random, Miller outputs"),
 "C06": ("reference-model monitors wrapped around ecdsa_raw_sign / deterministic_generate_k / ecdsa_raw_recover (independent RFC 6979 + affine ECDSA model, OpenSSL as second oracle) over directed hostile key/hash grids",
         "4.C06", "every sign/recover execution is compared with an independent deterministic model; classes for both low-s branches, both R.y parities, boundary keys and hash lengths 0..64 are counted and required"),
 "C07": ("reference-model monitors on add/double/neg/multiply/twist of the four curve modules (independent affine model), exhaustive small-field substitution through the unchanged functions, constants compared with values derived from the curve parameters",
         "4.C07", "results of every observed group operation are normalised from raw coordinates and compared with an affine model; small curves over GF(p) and GF(p^2) are enumerated completely; real curves sampled incl. non-subgroup points and 640-bit scalars"),
 "C08": ("reference-model monitors and canonical-storage invariants on every field operation of FQ/FQP (reference and optimized), exhaustive small fields, directed large exponents and integer operands",
         "4.C08", "each observed field operation is compared with an independent GF(p^k) model and each result's stored coefficients checked for canonical form; whole small fields enumerated"),
 "C13": ("formula-level reference-model monitors on optimized add/double/neg/eq/is_on_curve/linefunc and secp256k1 jacobian_add/double with arbitrary (also off-curve, rescaled, z=0) coordinates; exhaustive projective triples over small fields; Schwartz-Zippel bound for generic paths",
         "4.C13", "each control path is driven deliberately and counted; generic identities are decided with error <= d/q per random sample; special paths enumerated exhaustively on small fields"),
 "C14": ("three-way differential monitor (reference class, optimized class, independent model) over random expression DAGs, exhaustive depth-1 programs on small fields, sgn0 against RFC 9380 generic-m definition",
         "4.C14", "random straight-line programs evaluated in both implementations and in the model; canonical coefficients compared; exceptions must agree in kind"),
 "C15": ("reference-model monitors wrapped around expand_message_xmd / hash_to_field_FQ / hash_to_field_FQ2 over the full parameter grid (10 hashlib functions, DST 0..300, lengths around every block boundary)",
         "4.C15", "every call is compared byte-for-byte with an RFC 9380 model written on hashlib only and anchored by RFC K.1 vectors; refusals required for DST>255 and ell>255"),
 "C16": ("reference-model monitors on hkdf_extract / hkdf_expand / KeyGen (own HMAC-SHA256 + RFC 5869 model, cryptography's HKDF as second oracle) plus fault injection at hkdf_expand to drive the KeyGen retry loop",
         "4.C16", "every call compared with the model; the otherwise unreachable SK==0 retry is driven by injected zero outputs and compared with the model's re-salting"),
 "C18": ("reference-model monitors on secp256k1 add/multiply/privtopub/jacobian_* (affine model, OpenSSL second oracle) plus exhaustive substitution of the module constants by small prime-order curves",
         "4.C18", "real-curve cases incl. negative and >N scalars, identity operands, P=Q, P=-Q; every ordered pair and scalar on small curves enumerated through the unchanged functions"),
 "C19": ("reference-model monitor on ecdsa_raw_recover over the hostile (v, r, s, hash) grid incl. r=N, r in [N,P), s multiples of N, identity result; refusals must be ValueError",
         "4.C19", "every recover execution compared with an independent lift-and-solve model; returned keys re-verified by the ECDSA equation in the model; plus the whole (v, r, s, z) space on small prime-order curves (module constants rebound, P = 3 mod 4), which makes r in [N, P), r or s = 0 mod N and the identity result ordinary cases"),
 "C20": ("purity monitor at the call boundary (value digests of every argument and of a registry of all module constants before/after each call) plus an offline history checker over recorded event logs of many interleavings in 16 fresh interpreters with varied PYTHONHASHSEED: same (operation, arguments) => same result digest; registry digest constant",
         "4.C20", "about 700 distinct (operation, arguments) pairs over all modules, each observed at several positions of several histories; ad-hoc field classes are created mid-history, persistent element objects are shared by several operations of a history, operations that are refused or abandoned half-way (a product that raises in the middle) are included, and every second interpreter adds a four-thread concurrent history whose events go to the same offline checker; any in-place change of public generators, tables, tags or arguments changes a digest; private / lazily initialised module state is not treated as a constant, a wrong cache shows as a history-dependent result"),
}

PENDING = {
 "C01": "check not built yet (planned: boundary monitors on Sign/Verify/PopProve/PopVerify/KeyGen with fault injection); no claim made",
 "C02": "check not built yet (planned: analytic uniqueness oracle on Verify); no claim made",
 "C03": "check not built yet (planned: aggregate-sum oracle with known secret keys); no claim made",
 "C04": "check not built yet (planned: totality monitor + pairing-argument monitor); no claim made",
 "C05": "check not built yet (planned: bilinearity identities evaluated in model GF(p^12)); no claim made",
 "C09": "check not built yet (planned: full-pipeline model differential); no claim made",
 "C10": "check not built yet (planned: stage-by-stage h2c monitors); no claim made",
 "C11": "check not built yet (planned: ZCash model monitors); no claim made",
 "C12": "check not built yet (planned: reference/optimized pairing differential); no claim made",
 "C17": "check not built yet (planned: subgroup/cofactor monitors); no claim made",
 "C20": "check not built yet (planned: purity monitors + offline history checker); no claim made",
}


def main():
    import importlib.util
    checks = []
    for pid in sorted(CHECKS):
        tech, ref, text = CHECKS[pid]
        checks.append({
            "property_id": pid,
            "quick_cmd": "./check %s --tier quick" % pid,
            "thorough_cmd": "./check %s --tier thorough" % pid,
            "evidence_file": "/verif/evidence/%s.json" % pid,
            "replay_cmd_template": "./check %s --replay {path}" % pid,
            "engine": "pv",
            "level_claimed": {"category": "exploration", "text": text, "design_ref": ref},
            "level_note": COMMON_NOTE,
            "technique": "runtime monitoring: " + tech,
        })
    m = {
        "version": 1,
        "setup_cmd": "sh ./tools/setup.sh",
        "hooks": {
            "guard": "PY_ECC_VERIF",
            "enable": "no source hooks: monitors are installed from the harness by rebinding module-level names of the py_ecc modules imported from /repo's working tree (PYTHONPATH=/repo)",
            "baseline_off_cmd": "cd /repo && /venv/bin/python -m pytest -q -p no:cacheprovider --timeout=900",
            "source_commits": [],
            "add_only": True,
        },
        "engines": [{
            "name": "pv", "path": "/verif/pv",
            "serves_properties": sorted(CHECKS),
            "kind_free_text": "runtime monitors (wrappers/contracts on the real functions, reference-model oracles, offline history checker, fault injection, small-configuration substitution) driven by directed hostile workloads in 16 shard subprocesses",
        }],
        "checks": checks,
        "not_applicable": [{"property_id": k, "reason": v} for k, v in sorted(PENDING.items()) if k not in CHECKS],
        "notes": "Exit codes of ./check: 0 held (KNOWN-FINDING lines possible), 1 violation (VIOLATION property=<id> replay=<path>), 2 inconclusive (oracle self-test failed, monitor never evaluated, watchdog). Repository fixes: see known_findings.json ('fixed' entries).",
    }
    json.dump(m, open(os.path.join(HERE, "MANIFEST.json"), "w"), indent=1)
    try:
        import jsonschema
        jsonschema.validate(m, json.load(open("/root/.vp/MANIFEST.schema.json")))
        print("MANIFEST.json valid; %d checks, %d not_applicable" % (len(checks), len(m["not_applicable"])))
    except ImportError:
        print("written (jsonschema not importable here)")


if __name__ == "__main__":
    main()
