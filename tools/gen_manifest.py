#!/usr/bin/env python3
"""Regenerates /verif/MANIFEST.json from the table below (run: python3 tools/gen_manifest.py)."""
import json, os
HERE = os.path.normpath(os.path.join(os.path.dirname(os.path.abspath(__file__)), ".."))

COMMON_NOTE = ("Trusted base: CPython ints/pow/hashlib; the independent models in pv/model (self-tested at the start of every run "
               "against published vectors and algebraic identities; a failing self-test gives exit 2, never a violation). "
               "Decides only the executions produced: 'held on K observed executions covering these classes', not a proof.")

CHECKS = {
 "C06": ("reference-model monitors wrapped around ecdsa_raw_sign / deterministic_generate_k / ecdsa_raw_recover (independent RFC 6979 + affine ECDSA model, OpenSSL as second oracle) over directed hostile key/hash grids",
         "4.C06", "every sign/recover execution is compared with an independent deterministic model; classes for both low-s branches, both R.y parities, boundary keys and hash lengths 0..64 are counted and required"),
 "C07": ("reference-model monitors on add/double/neg/multiply/twist of the four curve modules (independent affine model), exhaustive small-field substitution through the unchanged functions, constants compared with values derived from the curve parameters",
         "4.C07", "results of every observed group operation are normalised from raw coordinates and compared with an affine model; small curves over GF(p) and GF(p^2) are enumerated completely; real curves sampled incl. non-subgroup points and 640-bit scalars"),
 "C08": ("reference-model monitors and canonical-storage invariants on every field operation of FQ/FQP (reference and optimized), exhaustive small fields, directed large exponents and integer operands",
         "4.C08", "each observed field operation is compared with an independent GF(p^k) model and each result's stored coefficients checked for canonical form; whole small fields enumerated"),
 "C13": ("formula-level reference-model monitors on optimized add/double/neg/eq/is_on_curve/linefunc and secp256k1 jacobian_add/double with arbitrary (also off-curve, rescaled, z=0) coordinates; exhaustive projective triples over small fields; Schwartz-Zippel bound for generic paths",
         "4.C13", "each control path is driven deliberately and counted; generic identities are decided with error <= d/q per random sample; special paths enumerated exhaustively on small fields"),
 "C14": ("three-way differential monitor (reference class, optimized class, independent model) over random expression DAGs, exhaustive depth-1 programs on small fields, sgn0 against RFC 9380 generic-m definition",
         "4.C14", "random straight-line programs evaluated in both implementations and in the model; canonical coefficients compared; exceptions must agree in kind"),
 "C15": ("reference-model monitors wrapped around expand_message_xmd / hash_to_field_FQ / hash_to_field_FQ2 over the full parameter grid (10 hashlib functions, DST 0..300, lengths around every block boundary)",
         "4.C15", "every call is compared byte-for-byte with an RFC 9380 model written on hashlib only and anchored by RFC K.1 vectors; refusals required for DST>255 and ell>255"),
 "C16": ("reference-model monitors on hkdf_extract / hkdf_expand / KeyGen (own HMAC-SHA256 + RFC 5869 model, cryptography's HKDF as second oracle) plus fault injection at hkdf_expand to drive the KeyGen retry loop",
         "4.C16", "every call compared with the model; the otherwise unreachable SK==0 retry is driven by injected zero outputs and compared with the model's re-salting"),
 "C18": ("reference-model monitors on secp256k1 add/multiply/privtopub/jacobian_* (affine model, OpenSSL second oracle) plus exhaustive substitution of the module constants by small prime-order curves",
         "4.C18", "real-curve cases incl. negative and >N scalars, identity operands, P=Q, P=-Q; every ordered pair and scalar on small curves enumerated through the unchanged functions"),
 "C19": ("reference-model monitor on ecdsa_raw_recover over the hostile (v, r, s, hash) grid incl. r=N, r in [N,P), s multiples of N, identity result; refusals must be ValueError",
         "4.C19", "every recover execution compared with an independent lift-and-solve model; returned keys re-verified by the ECDSA equation in the model"),
}

PENDING = {
 "C01": "check not built yet (planned: boundary monitors on Sign/Verify/PopProve/PopVerify/KeyGen with fault injection); no claim made",
 "C02": "check not built yet (planned: analytic uniqueness oracle on Verify); no claim made",
 "C03": "check not built yet (planned: aggregate-sum oracle with known secret keys); no claim made",
 "C04": "check not built yet (planned: totality monitor + pairing-argument monitor); no claim made",
 "C05": "check not built yet (planned: bilinearity identities evaluated in model GF(p^12)); no claim made",
 "C09": "check not built yet (planned: full-pipeline model differential); no claim made",
 "C10": "check not built yet (planned: stage-by-stage h2c monitors); no claim made",
 "C11": "check not built yet (planned: ZCash model monitors); no claim made",
 "C12": "check not built yet (planned: reference/optimized pairing differential); no claim made",
 "C17": "check not built yet (planned: subgroup/cofactor monitors); no claim made",
 "C20": "check not built yet (planned: purity monitors + offline history checker); no claim made",
}


def main():
    import importlib.util
    checks = []
    for pid in sorted(CHECKS):
        tech, ref, text = CHECKS[pid]
        checks.append({
            "property_id": pid,
            "quick_cmd": "./check %s --tier quick" % pid,
            "thorough_cmd": "./check %s --tier thorough" % pid,
            "evidence_file": "/verif/evidence/%s.json" % pid,
            "replay_cmd_template": "./check %s --replay {path}" % pid,
            "engine": "pv",
            "level_claimed": {"category": "exploration", "text": text, "design_ref": ref},
            "level_note": COMMON_NOTE,
            "technique": "runtime monitoring: " + tech,
        })
    m = {
        "version": 1,
        "setup_cmd": "sh ./tools/setup.sh",
        "hooks": {
            "guard": "PY_ECC_VERIF",
            "enable": "no source hooks: monitors are installed from the harness by rebinding module-level names of the py_ecc modules imported from /repo's working tree (PYTHONPATH=/repo)",
            "baseline_off_cmd": "cd /repo && /venv/bin/python -m pytest -q -p no:cacheprovider --timeout=900",
            "source_commits": [],
            "add_only": True,
        },
        "engines": [{
            "name": "pv", "path": "/verif/pv",
            "serves_properties": sorted(CHECKS),
            "kind_free_text": "runtime monitors (wrappers/contracts on the real functions, reference-model oracles, offline history checker, fault injection, small-configuration substitution) driven by directed hostile workloads in 16 shard subprocesses",
        }],
        "checks": checks,
        "not_applicable": [{"property_id": k, "reason": v} for k, v in sorted(PENDING.items()) if k not in CHECKS],
        "notes": "Exit codes of ./check: 0 held (KNOWN-FINDING lines possible), 1 violation (VIOLATION property=<id> replay=<path>), 2 inconclusive (oracle self-test failed, monitor never evaluated, watchdog). Repository fixes: see known_findings.json ('fixed' entries).",
    }
    json.dump(m, open(os.path.join(HERE, "MANIFEST.json"), "w"), indent=1)
    try:
        import jsonschema
        jsonschema.validate(m, json.load(open("/root/.vp/MANIFEST.schema.json")))
        print("MANIFEST.json valid; %d checks, %d not_applicable" % (len(checks), len(m["not_applicable"])))
    except ImportError:
        print("written (jsonschema not importable here)")


if __name__ == "__main__":
    main()
