#!/usr/bin/env python3
"""Confirm and evaluate changes written independently by sub-agents (seeded/<id>/).

  python3 tools/seeded.py confirm <id> [--from /tmp/seed_out/<id>] [--tests]   # copy deliverables, confirm demo on both trees (+ repo tests)
  python3 tools/seeded.py check <id> [PROP ...] [--tier quick]                 # run my checks against the change in a scratch worktree
  python3 tools/seeded.py table                                                 # print the summary table

Scratch worktrees live under /tmp and are removed afterwards; nothing is ever applied to /repo."""
import json
import os
import re
import shutil
import subprocess
import sys
import tempfile
import time

HERE = os.path.normpath(os.path.join(os.path.dirname(os.path.abspath(__file__)), ".."))


def sh(cmd, **kw):
    return subprocess.run(cmd, shell=True, capture_output=True, text=True, **kw)


def worktree(patch=None):
    wt = tempfile.mkdtemp(prefix="pvseed_")
    os.rmdir(wt)
    r = sh("git -C /repo worktree add -q --detach %s HEAD" % wt)
    if r.returncode:
        raise SystemExit(r.stderr)
    if patch:
        r = sh("git -C %s apply %s" % (wt, patch))
        if r.returncode:
            sh("git -C /repo worktree remove --force %s" % wt)
            raise SystemExit("patch does not apply: " + r.stderr)
    return wt


def drop(wt):
    sh("git -C /repo worktree remove --force %s" % wt)
    sh("rm -rf %s" % wt)


def meta_path(sid):
    return os.path.join(HERE, "seeded", sid, "meta.json")


def load_meta(sid):
    p = meta_path(sid)
    return json.load(open(p)) if os.path.exists(p) else {"id": sid}


def save_meta(sid, m):
    json.dump(m, open(meta_path(sid), "w"), indent=1)


def confirm(sid, src, tests):
    d = os.path.join(HERE, "seeded", sid)
    os.makedirs(d, exist_ok=True)
    for f in ("patch.diff", "demo.py", "notes.md"):
        if os.path.exists(os.path.join(src, f)):
            shutil.copy(os.path.join(src, f), os.path.join(d, f))
    m = load_meta(sid)
    m["property"] = sid[:3]
    clean = worktree()
    bad = worktree(os.path.join(d, "patch.diff"))
    try:
        r0 = sh("PYTHONPATH=%s /venv/bin/python %s/demo.py" % (clean, d), timeout=1800)
        r1 = sh("PYTHONPATH=%s /venv/bin/python %s/demo.py" % (bad, d), timeout=1800)
        m["demo_on_original"] = {"exit": r0.returncode, "tail": r0.stdout.strip().splitlines()[-2:]}
        m["demo_on_changed"] = {"exit": r1.returncode, "tail": r1.stdout.strip().splitlines()[-3:]}
        imp = sh("PYTHONPATH=%s /venv/bin/python -c 'import py_ecc, py_ecc.bls, py_ecc.bn128, py_ecc.bls12_381, py_ecc.optimized_bn128, py_ecc.secp256k1; print(py_ecc.__file__)'" % bad)
        m["imports"] = imp.returncode == 0 and bad in imp.stdout
        if tests:
            t0 = time.time()
            r = sh("cd %s && PYTHONPATH=%s /venv/bin/python -m pytest -q -p no:cacheprovider --timeout=900 tests 2>&1 | tail -1" % (bad, bad), timeout=3600)
            m["repo_tests_on_changed"] = r.stdout.strip()
            m["repo_tests_s"] = round(time.time() - t0)
        m["confirmed"] = bool(r0.returncode == 0 and r1.returncode != 0 and m["imports"] and (not tests or (" passed" in m.get("repo_tests_on_changed", "") and " failed" not in m["repo_tests_on_changed"])))
        m["what_i_ran"] = ["git worktree add (clean) + git apply patch.diff (changed), both under /tmp", "PYTHONPATH=<tree> /venv/bin/python demo.py on both trees",
                           "PYTHONPATH=<changed> /venv/bin/python -m pytest -q tests (repository's own suite)"]
    finally:
        drop(clean)
        drop(bad)
    save_meta(sid, m)
    print(json.dumps(m, indent=1))


def check(sid, props, tier):
    d = os.path.join(HERE, "seeded", sid)
    m = load_meta(sid)
    props = props or [m.get("property", sid[:3])]
    bad = worktree(os.path.join(d, "patch.diff"))
    res = m.setdefault("checks", {})
    try:
        for pid in props:
            t0 = time.time()
            r = sh("PV_REPO=%s %s/check %s --tier %s" % (bad, HERE, pid, tier), timeout=6 * 3600)
            viol = re.findall(r"^VIOLATION property=(\S+)", r.stdout, re.M)
            res["%s/%s" % (pid, tier)] = {"exit": r.returncode, "violation": bool(viol), "wall_s": round(time.time() - t0),
                                          "detail": [l.strip()[:300] for l in r.stdout.splitlines() if l.startswith("  ")][:4],
                                          "notes": [l for l in r.stdout.splitlines() if l.startswith(("NOTE", "INCONCLUSIVE"))][:4]}
            print(pid, tier, "exit", r.returncode, "VIOLATION" if viol else "", res["%s/%s" % (pid, tier)]["detail"][:2])
    finally:
        drop(bad)
    m["caught_by"] = sorted({k for k, v in res.items() if v["exit"] == 1 and v["violation"]})
    save_meta(sid, m)


def table():
    base = os.path.join(HERE, "seeded")
    for sid in sorted(os.listdir(base)):
        m = load_meta(sid)
        print("%-10s confirmed=%s tests=%s caught_by=%s" % (sid, m.get("confirmed"), m.get("repo_tests_on_changed", "")[:30], m.get("caught_by")))


if __name__ == "__main__":
    a = sys.argv[1:]
    cmd = a.pop(0)
    if cmd == "table":
        table()
        sys.exit(0)
    sid = a.pop(0)
    tier, tests, src, props = "quick", False, "/tmp/seed_out/" + sid, []
    while a:
        x = a.pop(0)
        if x == "--tier":
            tier = a.pop(0)
        elif x == "--tests":
            tests = True
        elif x == "--from":
            src = a.pop(0)
        else:
            props.append(x)
    if cmd == "confirm":
        confirm(sid, src, tests)
    else:
        check(sid, props, tier)
