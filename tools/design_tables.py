#!/usr/bin/env python3
"""Rewrites the generated tables of DESIGN.md (between <!-- BEGIN:x --> / <!-- END:x --> markers) from
mutants/results.json, mutants/catalogue.py and seeded/*/meta.json."""
import json, os, re, sys
HERE = os.path.normpath(os.path.join(os.path.dirname(os.path.abspath(__file__)), ".."))
sys.path.insert(0, os.path.join(HERE, "mutants"))
from catalogue import MUTANTS


def mutants_table():
    res = json.load(open(os.path.join(HERE, "mutants", "results.json")))
    rows = ["| mutant | breaks | what it changes | repo tests | quick checks run -> exit | verdict |", "|---|---|---|---|---|---|"]
    n = caught = eq = eq_ok = missed = 0
    for m in MUTANTS:
        r = res.get(m["name"])
        if not r or "checks" not in r:
            rows.append("| %s | %s | %s | | not run | |" % (m["name"], ",".join(m["props"]), m["note"]))
            continue
        equivalent = m["note"].startswith("EQUIVALENT")
        n += 1
        ck = ", ".join("%s->%d" % (p, v["exit"]) for p, v in r["checks"].items())
        if equivalent:
            eq += 1
            verdict = "silent, as it must be" if not r["caught"] else "**FALSE ALARM**"
            eq_ok += (not r["caught"])
        else:
            verdict = "caught by " + ",".join(r["caught_by"]) if r["caught"] else "**missed**"
            caught += r["caught"]
            missed += (not r["caught"])
        rows.append("| %s | %s | %s | %s | %s | %s |" % (m["name"], ",".join(m["props"]), m["note"].replace("|", "/"), r.get("repo_tests", "")[:28].strip("= "), ck, verdict))
    head = "%d mutants run: %d property-breaking, of which %d caught and %d missed; %d behaviour-preserving (sanity), of which %d left silent.\n\n" % (n, n - eq, caught, missed, eq, eq_ok)
    return head + "\n".join(rows)


def seeded_table():
    base = os.path.join(HERE, "seeded")
    rows = ["| id | property | what it needs to manifest | confirmed (demo passes on original / fails on change; repo tests) | caught by |", "|---|---|---|---|---|"]
    if not os.path.isdir(base):
        return "(none yet)"
    for sid in sorted(os.listdir(base)):
        mp = os.path.join(base, sid, "meta.json")
        if not os.path.exists(mp):
            continue
        m = json.load(open(mp))
        rows.append("| %s | %s | %s | %s; %s | %s |" % (sid, m.get("property"), (m.get("needs") or "").replace("|", "/"), "yes" if m.get("confirmed") else "NO",
                                                     (m.get("repo_tests_on_changed") or "").strip("= ")[:24], (", ".join(m.get("caught_by") or []) or "**missed**") + (" - " + m["first_run"] if m.get("first_run") else "")))
    return "\n".join(rows)


def main():
    p = os.path.join(HERE, "DESIGN.md")
    s = open(p).read()
    for key, fn in (("mutants", mutants_table), ("seeded", seeded_table)):
        a, b = "<!-- BEGIN:%s -->" % key, "<!-- END:%s -->" % key
        if a in s and b in s:
            s = s[: s.index(a) + len(a)] + "\n" + fn() + "\n" + s[s.index(b):]
    open(p, "w").write(s)
    print("tables rewritten")


if __name__ == "__main__":
    main()
