#!/usr/bin/env python3
"""Validate MANIFEST.json and every evidence file against the schemas (run with python3-vt)."""
import glob, json, sys
import jsonschema
ok = True
m = json.load(open("/verif/MANIFEST.json"))
jsonschema.validate(m, json.load(open("/root/.vp/MANIFEST.schema.json")))
es = json.load(open("/root/.vp/EVIDENCE.schema.json"))
props = [json.loads(l)["id"] for l in open("/verif/properties.jsonl")]
claimed = {c["property_id"] for c in m["checks"]}
na = {c["property_id"] for c in m.get("not_applicable", [])}
print("claimed", len(claimed), "not_applicable", len(na), "unaccounted", sorted(set(props) - claimed - na))
for c in m["checks"]:
    f = c["evidence_file"]
    try:
        e = json.load(open(f))
        jsonschema.validate(e, es)
        cov = e["coverage"]
        print("%s ok tier=%s evals=%d distinct=%d verdict=%s wall=%.0fs viol=%s" % (c["property_id"], e["tier"], cov["evaluations"], cov["distinct_nontrivial"], cov.get("verdict"), e["wall_s"], e.get("violations")))
    except Exception as ex:
        ok = False
        print("%s INVALID: %s" % (c["property_id"], str(ex)[:200]))
sys.exit(0 if ok else 1)
