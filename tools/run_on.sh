#!/bin/sh
# Run checks against a scratch worktree of /repo (never against /repo itself):
#   tools/run_on.sh <git-rev | patch-file> <ID> [more IDs...] [-- extra check args]
# The worktree lives under /tmp and is removed afterwards.  Evidence and replay files of
# such runs go to .work/ (they are not evidence for /repo).
set -u
HERE="$(cd "$(dirname "$0")/.." && pwd)"
SPEC="$1"; shift
WT="$(mktemp -d /tmp/pvwt.XXXXXX)"; rmdir "$WT"
if [ -f "$SPEC" ]; then
  git -C /repo worktree add -q --detach "$WT" HEAD || exit 3
  git -C "$WT" apply "$(realpath "$SPEC")" || { git -C /repo worktree remove --force "$WT"; echo "patch does not apply"; exit 3; }
else
  git -C /repo worktree add -q --detach "$WT" "$SPEC" || exit 3
fi
IDS=""; EXTRA=""
while [ $# -gt 0 ]; do
  if [ "$1" = "--" ]; then shift; EXTRA="$*"; break; fi
  IDS="$IDS $1"; shift
done
rc=0
for id in $IDS; do
  PV_REPO="$WT" "$HERE/check" "$id" $EXTRA; r=$?
  echo "== $id on $SPEC: exit $r"
  [ $r -ne 0 ] && rc=$r
done
git -C /repo worktree remove --force "$WT"
exit $rc
